"""Implementation-side restatement of C18/C19 on an observed history (search only; the theorems are in Coq).

`walk` replays the *requested* subscriptions (who asked for what, until when) next to the observed
emissions and yields, for each emitted document, the subscriptions that are live at that moment.
`sharing` mirrors the Coq finding class finding_C18_a.
"""
from harness.drivers.dispatch_driver import SIGS

SUBS_NAMES = ["all", "start", "stop", "event", "descriptor"]


def covers(name, kind):
    return name == "all" or name == kind


def valid_name(name):
    return name == "all" or name in SIGS


def per_call_subs(spec):
    """normalize_subs_input: [(name, fn)] in the order the subscriptions are made, or None (KeyError)."""
    if spec["form"] == "none":
        return []
    if spec["form"] in ("callable", "list"):
        return [("all", i) for i in spec["items"][0][1]]
    if any(n not in SUBS_NAMES for n, _ in spec["items"]):
        return None
    out = []
    for n in SUBS_NAMES:
        for m, fs in spec["items"]:
            if m == n:
                out += [(n, i) for i in fs]
    return out


class Live:
    """Requested subscriptions: (tok, fn, name, temp), in the order they were made."""

    def __init__(self):
        self.subs = []
        self.next_tok = 0
        self.ignore = False

    def add(self, fn, name, temp):
        self.subs.append((self.next_tok, fn, name, temp))
        self.next_tok += 1
        return self.next_tok - 1

    def remove(self, tok):
        self.subs = [s for s in self.subs if s[0] != tok]

    def end_call(self):
        self.subs = [s for s in self.subs if not s[3]]

    def covering(self, kind):
        return [s for s in self.subs if covers(s[2], kind)]


def walk(case, obs):
    """Yield ("emission", op_index, k, doc, invoked, live_covering, ignore) and
    ("token", op_index, expected_token, observed) events.  live_covering is the list of subscriptions
    live WHEN THE DOCUMENT IS EMITTED; subscriptions changed by callbacks during its delivery (markers
    cb_sub / cb_unsub, which come after the emit marker) only affect later documents."""
    lv = Live()
    for oi, (op, o) in enumerate(zip(case["ops"], obs["ops"])):
        k = op[0]
        if k == "sub":
            if valid_name(op[2]):
                t = lv.add(op[1], op[2], False)
                yield ("token", oi, t, o.get("tok") if isinstance(o, dict) else None)
            else:
                yield ("token", oi, None, o.get("tok") if isinstance(o, dict) else None)
        elif k == "unsub":
            lv.remove(op[1])
        elif k == "ignore":
            lv.ignore = bool(op[1])
        elif k in ("unsub_all", "reset"):
            lv.subs = []
        elif k == "call":
            pcs = per_call_subs(op[1])
            if pcs is not None:
                for n, f in pcs:
                    lv.add(f, n, True)
                for ent in o["timeline"]:
                    if ent[0] == "sub":
                        t = lv.add(ent[1], ent[2], True)
                        yield ("token", oi, t, ent[3])
                    elif ent[0] == "cb_sub":
                        t = lv.add(ent[1], ent[2], False)        # RE.subscribe from a callback: permanent
                        yield ("token", oi, t, ent[3])
                    elif ent[0] in ("unsub", "cb_unsub"):
                        lv.remove(ent[1])
                    elif ent[0] == "emit":
                        d, inv = o["ems"][ent[1]]
                        yield ("emission", oi, ent[1], d, inv, lv.covering(d[0]), lv.ignore)
            lv.end_call()


def raises(case, fn, d):
    for s, r, q in case["fns"][fn]["raises"]:
        if s != d[0]:
            continue
        if r is not None and r != d[1]:
            continue
        if d[0] == "event" and q is not None and q != d[2]:
            continue
        return True
    return False


def sharing(case, obs):
    """Mirror of finding_C18_a: some subscription was made for a callable equal to one whose earlier
    subscription for an overlapping document kind is still registered -- permanent and not yet
    unsubscribed, or temporary (per-call / in-plan) and neither unsubscribed nor cleared by the start of
    the next call (temporary ones stay registered after their call ends)."""
    eq = [f["eq"] for f in case["fns"]]
    reg = []          # (tok, eqclass, name)
    temp = set()
    nxt = [0]

    def overlap(a, b):
        return a == "all" or b == "all" or a == b

    def add(fn, name):
        hit = any(e == eq[fn] and overlap(n, name) for _, e, n in reg)
        reg.append((nxt[0], eq[fn], name))
        nxt[0] += 1
        return hit, nxt[0] - 1

    def remove(tok):
        reg[:] = [r for r in reg if r[0] != tok]

    for op, o in zip(case["ops"], obs["ops"]):
        k = op[0]
        if k == "sub":
            if valid_name(op[2]):
                if add(op[1], op[2])[0]:
                    return True
        elif k == "unsub":
            remove(op[1])
        elif k == "unsub_all":
            reg[:] = []
        elif k == "reset":
            reg[:] = []
            temp.clear()
        elif k == "call":
            for t in temp:
                remove(t)
            temp.clear()
            pcs = per_call_subs(op[1])
            if pcs is None:
                continue
            for n, f in pcs:
                hit, t = add(f, n)
                temp.add(t)
                if hit:
                    return True
            for ent in o["timeline"]:
                if ent[0] == "sub":
                    hit, t = add(ent[1], ent[2])
                    temp.add(t)
                    if hit:
                        return True
                elif ent[0] == "cb_sub":
                    if add(ent[1], ent[2])[0]:
                        return True
                elif ent[0] == "unsub":
                    remove(ent[1])
                    temp.discard(ent[1])
                elif ent[0] == "cb_unsub":
                    remove(ent[1])
    return False


def stop_raise(case, obs):
    """Mirror of finding_C19_a: with exceptions not ignored, a callback invoked for a stop document raised."""
    ign = False
    for op, o in zip(case["ops"], obs["ops"]):
        if op[0] == "ignore":
            ign = bool(op[1])
        elif op[0] == "call" and not ign:
            for d, inv in o["ems"]:
                if d[0] == "stop" and any(r for _, r in inv):
                    return True
    return False
