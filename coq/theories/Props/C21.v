(* C21 -- plan_mutator inserts head/tail messages exactly as documented.
   Machine: Gen/Mutators.v (plan_mutator WITH fixes/C21-a.diff: [fixed = true]).
   Reference: Gen/InsertSpec.v (typed frames RHost / RHead tail / RTail saved, one pending input).
   For EVERY plan coalgebra (P, resume), every host, every processor (any function of its own state and
   the message, returning any head/tail plans), every script (any length, every input kind), any fuel.
   Only `exact lemma` proofs (Proofs/InsertSpec.v). *)
From BV Require Import Base.Prelude Gen.Coalg Gen.PyGen Gen.Mutators Gen.InsertSpec Proofs.InsertSpec.
From BV Require Import Gen.Tie.

(* same observations AND same inputs delivered to every plan (host, heads, tails), step by step *)
Theorem C21_plan_mutator_is_insert_spec :
  forall (P : Type) (resume : P -> input -> outcome P) (PS : Type) (proc : @pm_proc P PS)
         (host : P) (s0 : PS) (s : list input) (fuel : nat),
    ltrace (pm_lresume resume proc true fuel) (pm_init host s0) s
    = ltrace (is_lresume resume proc fuel) (is_init host s0) s.
Proof. exact @pm_is_insert_spec. Qed.
Print Assumptions C21_plan_mutator_is_insert_spec.

(* the clauses of the property, read off the reference *)
Theorem C21_head_response_reaches_host :
  forall (P : Type) (resume : P -> input -> outcome P) (PS : Type) (proc : @pm_proc P PS)
         st f below rest v w,
    s_frames st = f :: below :: rest -> f_role f = RHead None ->
    ent_resume resume (f_ent f) (Send v) = Returned w ->
    is_iter resume proc st (Send v)
    = JCont (mkIS (s_seen st) (below :: rest) (s_retv st) (s_next st) (s_ps st)) (Send v) [Call (f_id f) (Send v)].
Proof. exact @head_response_passed. Qed.
Print Assumptions C21_head_response_reaches_host.

Theorem C21_tail_runs_after_head :
  forall (P : Type) (resume : P -> input -> outcome P) (PS : Type) (proc : @pm_proc P PS)
         st f below rest v w tid t,
    s_frames st = f :: below :: rest -> f_role f = RHead (Some (tid, t)) ->
    ent_resume resume (f_ent f) (Send v) = Returned w ->
    is_iter resume proc st (Send v)
    = JCont (mkIS (s_seen st) (mkFr tid t (RTail v) :: below :: rest) (s_retv st) (s_next st) (s_ps st))
            (Send VNone) [Call (f_id f) (Send v)].
Proof. exact @head_then_tail. Qed.

Theorem C21_tail_responses_swallowed :
  forall (P : Type) (resume : P -> input -> outcome P) (PS : Type) (proc : @pm_proc P PS)
         st f below rest i w saved,
    s_frames st = f :: below :: rest -> f_role f = RTail saved ->
    ent_resume resume (f_ent f) i = Returned w ->
    is_iter resume proc st i
    = JCont (mkIS (s_seen st) (below :: rest) (s_retv st) (s_next st) (s_ps st)) (Send saved) [Call (f_id f) i].
Proof. exact @tail_responses_swallowed. Qed.
Print Assumptions C21_tail_responses_swallowed.

Theorem C21_exception_reaches_host :
  forall (P : Type) (resume : P -> input -> outcome P) (PS : Type) (proc : @pm_proc P PS)
         st f below rest i e,
    s_frames st = f :: below :: rest ->
    (match i, f_role f with Send _, RHead (Some _) => False | Close, _ => False | _, _ => True end) ->
    ent_resume resume (f_ent f) i = Raised e -> is_Exception e = true ->
    is_iter resume proc st i
    = JCont (mkIS (s_seen st) (below :: rest) (s_retv st) (s_next st) (s_ps st)) (Throw e) [Call (f_id f) i].
Proof. exact @exception_passed_down. Qed.
Print Assumptions C21_exception_reaches_host.

Theorem C21_seen_message_not_reprocessed :
  forall (P : Type) (PS : Type) (proc : @pm_proc P PS) st m calls,
    mem_nat m (s_seen st) = true -> on_msg proc st m calls = JOut (Yielded m (ISRun st m)) calls.
Proof. exact @seen_message_not_reprocessed. Qed.

(* finding C21-a (repaired by fixes/C21-a.diff): the code before the repair, [fixed = false], is NOT the
   reference: a head that handles the thrown exception and returns has it thrown again into the host *)
Definition w_host : stmt := SSeq (SYield None 0) (SYield None 1).
Definition w_table : list (msg * (option stmt * option stmt)) :=
  [(0, (Some (STry (SYield None 4) [(PException, SPass)] SPass SPass), None))].
Definition w_script : list input := [Send VNone; Throw (EUser 0)].

Theorem C21_a_refuted_before_repair :
  trace (pm_resume (cl_resume 60) (tbl_proc w_table) false 20) (pm_init (cl_init w_host) tt) w_script
    = [OYield 4; ORaise (EUser 0)] /\
  trace (is_resume (cl_resume 60) (tbl_proc w_table) 20) (is_init (cl_init w_host) tt) w_script
    = [OYield 4; OYield 1].
Proof. split; vm_compute; reflexivity. Qed.

(* non-vacuity: head with two messages + tail, nested insertion at the head's first message *)
Definition nv_host : stmt := SSeq (SYield (Some 0) 0) (SReturn (RVar 0)).
Definition nv_table : list (msg * (option stmt * option stmt)) :=
  [(0, (Some (SSeq (SYield None 4) (SYield None 0)), Some (SYield None 5)));
   (4, (None, Some (SYield None 6)))].
Definition nv_script : list input := [Send VNone; Send (VInt 1); Send (VInt 2); Send (VInt 3); Send (VInt 4); Send (VInt 5)].

Example C21_nonvacuous :
  trace (pm_resume (cl_resume 60) (tbl_proc nv_table) true 20) (pm_init (cl_init nv_host) tt) nv_script
  = [OYield 4; OYield 6; OYield 0; OYield 5; OReturn (VInt 3)].
Proof. vm_compute. reflexivity. Qed.
