(* C42 - each run's trace span ends once with that run's outcome.
   Model: Engine/Spans.v (RunEngine._open_run / _close_run / _close_run_trace /
   _destroy_open_run_tracing_spans / the finally block of _run, src/bluesky/run_engine.py, with the
   repair fixes/C42-a.diff: spans are filed under the run key).
   A history is any list of: a new RE(...) call, open_run / close_run messages under any run keys
   (nested, interleaved, duplicate, unknown keys; any exit_status / reason keywords; an open_run the
   validator rejects; a subscriber raising on the RunStop), abort()/halt() requests, and the engine's
   cleanup with any exit status.  [runs_of h] is the specification side: which runs exist and how
   each one ended, told without spans; [run_log h] is what the model emits (documents and spans). *)
From BV Require Import Base.Prelude Base.KeyMap Engine.Spans Proofs.Spans.
From Coq Require Import NArith.

(* the RunStart / RunStop documents of the model are exactly the runs of the specification side *)
Theorem C42_documents_are_the_runs :
  forall h : list op,
    run_starts (run_log h) = seq 0 (nruns (runs_of h)) /\
    forall r, stops_of r (run_log h) = match rr_stop (recs (runs_of h) r) with Some p => [p] | None => [] end.
Proof. exact docs_are_the_runs. Qed.
Print Assumptions C42_documents_are_the_runs.

(* every opened run has exactly one span, only opened runs have spans (a refused open_run starts none),
   and no span belongs to two runs *)
Theorem C42_one_span_per_run :
  forall h : list op,
    (forall r, r < nruns (runs_of h) -> exists s, starts_for r (run_log h) = [s]) /\
    (forall s r, In (s, r) (span_starts (run_log h)) -> r < nruns (runs_of h)) /\
    (forall s r r', In (s, r) (span_starts (run_log h)) -> In (s, r') (span_starts (run_log h)) -> r = r').
Proof. exact one_span_per_run. Qed.
Print Assumptions C42_one_span_per_run.

(* no span is ever ended twice (whatever run it belongs to) *)
Theorem C42_ended_at_most_once :
  forall (h : list op) (s : nat), length (ends_of s (run_log h)) <= 1.
Proof. exact ended_at_most_once. Qed.
Print Assumptions C42_ended_at_most_once.

(* the exact fate of the span of every run whose RunStop was not spoilt by a raising subscriber:
   ended with "aborted" by the abort()/halt() that arrived while the run was open; otherwise ended
   exactly once with the exit_status and reason of the run's RunStop if the run was closed (by its own
   close_run message or by the engine's cleanup); otherwise (run still open) not ended *)
Theorem C42_span_fate :
  forall (h : list op) (r : nat),
    r < nruns (runs_of h) -> class_f (recs (runs_of h) r) = false ->
    exists s, starts_for r (run_log h) = [s] /\ ends_of s (run_log h) = expected_ends (recs (runs_of h) r).
Proof. exact span_fate. Qed.
Print Assumptions C42_span_fate.

(* the property: outside the two finding classes every closed run has one span, ended exactly once,
   whose exit_status names the run's own exit status *)
Theorem C42_each_run_span_ends_once_with_own_status :
  forall h : list op, finding_C42_e h = false -> finding_C42_f h = false -> all_spans_ok h.
Proof. exact history_spans_ok. Qed.
Print Assumptions C42_each_run_span_ends_once_with_own_status.

(* ... and per run, even in histories where other runs are in a finding class *)
Theorem C42_per_run :
  forall (h : list op) (r : nat),
    r < nruns (runs_of h) -> class_e (recs (runs_of h) r) = false -> class_f (recs (runs_of h) r) = false ->
    run_span_ok h r.
Proof. exact closed_run_span_ok. Qed.
Print Assumptions C42_per_run.

(* what must not happen: a run that is still open and was not interrupted keeps its span open;
   refused messages change nothing and touch no span *)
Theorem C42_open_run_span_live :
  forall (h : list op) (r : nat),
    r < nruns (runs_of h) -> rr_stop (recs (runs_of h) r) = None -> rr_intr (recs (runs_of h) r) = false ->
    class_f (recs (runs_of h) r) = false ->
    exists s, starts_for r (run_log h) = [s] /\ ends_of s (run_log h) = [].
Proof. exact open_run_span_live. Qed.
Print Assumptions C42_open_run_span_live.

Theorem C42_refused_messages_are_silent :
  forall (x : state) (k : key),
    (forall b valid, afind k (bund x) = Some b -> step x (OpenRun k valid) = (x, [EOut ORejectedDup])) /\
    (afind k (bund x) = None -> step x (OpenRun k false) = (x, [EOut ORejectedInvalid])) /\
    (forall st rs raises, afind k (bund x) = None -> step x (CloseRun k st rs raises) = (x, [EOut OIllegal])) /\
    (active x = false -> step x Interrupt = (x, [EOut OTransitionError])).
Proof. exact refused_messages_are_silent. Qed.
Print Assumptions C42_refused_messages_are_silent.

(* the full statement (no finding classes): false for the code as it is, see the two witnesses *)
Definition C42_full : Prop := forall h : list op, all_spans_ok h.

(* interleaved keys, a failure cleaned up by the engine, a refused duplicate open_run, a default
   close_run, and an aborted run: outside both classes, three runs closed three different ways *)
Definition h_nonvacuous : list op :=
  [NewCall; OpenRun 1%N true; OpenRun 2%N true; OpenRun 1%N true; CloseRun 1%N (Some s_success) None false;
   CloseRun 2%N (Some s_fail) (Some 7%N) false; OpenRun 3%N true; Finalize s_fail 9%N;
   NewCall; OpenRun 1%N true; CloseRun 1%N None None false; OpenRun 2%N true; Interrupt; Finalize s_abort 0%N].

Example C42_nonvacuous :
  finding_C42_e h_nonvacuous = false /\ finding_C42_f h_nonvacuous = false /\
  nruns (runs_of h_nonvacuous) = 5 /\
  map (fun r => rr_stop (recs (runs_of h_nonvacuous) r)) (seq 0 5)
  = [Some (s_success, 0%N); Some (s_fail, 7%N); Some (s_fail, 9%N); Some (s_success, 0%N); Some (s_abort, 0%N)] /\
  map (fun s => ends_of s (run_log h_nonvacuous)) (seq 0 5)
  = [[(Some s_success, Some 0%N)]; [(Some s_fail, Some 7%N)]; [(Some s_fail, Some 9%N)];
     [(Some s_success, Some 0%N)]; [(Some s_aborted, None)]].
Proof. vm_compute. repeat split. Qed.

(* C42-e: abort() while the run is open ends its span with "aborted"; the plan swallows the abort and
   closes the run with "success" *)
Definition h_e : list op := [NewCall; OpenRun 1%N true; Interrupt; CloseRun 1%N (Some s_success) None false; Finalize s_success 0%N].

Theorem C42_e_refuted : exists h, finding_C42_e h = true /\ finding_C42_f h = false /\ ~ all_spans_ok h.
Proof.
  exists h_e. split; [reflexivity|]. split; [reflexivity|]. intros H.
  destruct (H 0 (ltac:(vm_compute; auto)) s_success 0%N eq_refl) as (s & Hs & sst & srs & He & Ha).
  vm_compute in Hs. inversion Hs; subst s. vm_compute in He. inversion He; subst.
  destruct Ha as [Ha|[_ Ha]]; discriminate.
Qed.
Print Assumptions C42_e_refuted.

(* C42-f: a subscriber raises on the RunStop: the run keeps its bundler, the cleanup cannot close it
   again, the span is never ended *)
Definition h_f : list op := [NewCall; OpenRun 1%N true; CloseRun 1%N (Some s_success) None true; Finalize s_success 0%N].

Theorem C42_f_refuted : exists h, finding_C42_f h = true /\ finding_C42_e h = false /\ ~ all_spans_ok h.
Proof.
  exists h_f. split; [reflexivity|]. split; [reflexivity|]. intros H.
  destruct (H 0 (ltac:(vm_compute; auto)) s_success 0%N eq_refl) as (s & Hs & sst & srs & He & Ha).
  vm_compute in Hs. inversion Hs; subst s. vm_compute in He. discriminate.
Qed.
Print Assumptions C42_f_refuted.
