(* C13 / C12(i), part B: what resuming a frame of the plan stack can do. *)
From Coq Require Import List String ZArith Bool Arith Lia.
From BV Require Import Engine.RE Engine.REInst Engine.RespMon Proofs.RE_Small Proofs.RE_RespA.
Import ListNotations.
(* file-local implicit arguments for the model's functions (the model file itself is untouched) *)
Local Arguments upd {P D}.
Local Arguments set_state_raw {P D}.
Local Arguments set_pc {P D}.
Local Arguments set_must_cancel {P D}.
Local Arguments set_permit {P D}.
Local Arguments set_blocking {P D}.
Local Arguments set_plans {P D}.
Local Arguments set_resps {P D}.
Local Arguments set_cache {P D}.
Local Arguments set_rewindable {P D}.
Local Arguments set_exc_slot {P D}.
Local Arguments set_stashed {P D}.
Local Arguments set_interrupted {P D}.
Local Arguments set_deferred {P D}.
Local Arguments set_exit {P D}.
Local Arguments upd2 {P D}.
Local Arguments set_bundlers {P D}.
Local Arguments set_staged {P D}.
Local Arguments set_moved {P D}.
Local Arguments set_seen {P D}.
Local Arguments set_groups {P D}.
Local Arguments set_statuses {P D}.
Local Arguments set_futs {P D}.
Local Arguments set_uids {P D}.
Local Arguments set_pardon {P D}.
Local Arguments set_dst {P D}.
Local Arguments set_task_set {P D}.
Local Arguments set_ghost {P D}.
Local Arguments interrupt {P D}.
Local Arguments resumable {P D}.
Local Arguments set_state {P D}.
Local Arguments cancel_task {P D}.
Local Arguments map_bundlers {P D}.
Local Arguments record_interruptions {P D}.
Local Arguments reset_checkpoint {P D}.
Local Arguments rewind {P D}.
Local Arguments dcall {P D}.
Local Arguments stop_movables {P D}.
Local Arguments call_pausables {P D}.
Local Arguments get_bundler {P D}.
Local Arguments put_bundler {P D}.
Local Arguments any_bundling {P D}.
Local Arguments add_status {P D}.
Local Arguments request_pause {P D}.
Local Arguments finish_read {P D}.
Local Arguments mark_cached {P D}.
Local Arguments exec_cmd {P D}.
Local Arguments set_main {P D}.
Local Arguments set_mreq {P D}.
Local Arguments set_ers {P D}.
Local Arguments push_frame {P D}.
Local Arguments pop_plan {P D}.
Local Arguments replace_top {P D}.
Local Arguments all_resolved {P D}.
Local Arguments all_released {P D}.
Local Arguments close_runs {P D}.
Local Arguments FUEL {P D}.
Local Arguments req_result {P D}.
Local Arguments clear_call {P D}.
Local Arguments state {P D}.
Local Arguments pc {P D}.
Local Arguments must_cancel {P D}.
Local Arguments permit {P D}.
Local Arguments blocking {P D}.
Local Arguments task_set {P D}.
Local Arguments plans {P D}.
Local Arguments resps {P D}.
Local Arguments cache {P D}.
Local Arguments rewindable {P D}.
Local Arguments exc_slot {P D}.
Local Arguments stashed {P D}.
Local Arguments interrupted {P D}.
Local Arguments deferred {P D}.
Local Arguments exit_status {P D}.
Local Arguments reason {P D}.
Local Arguments bundlers {P D}.
Local Arguments staged {P D}.
Local Arguments moved {P D}.
Local Arguments pausables {P D}.
Local Arguments stageables {P D}.
Local Arguments seen {P D}.
Local Arguments groups {P D}.
Local Arguments statuses {P D}.
Local Arguments failed_seen {P D}.
Local Arguments futs {P D}.
Local Arguments uid_supply {P D}.
Local Arguments run_uids {P D}.
Local Arguments record_intr {P D}.
Local Arguments pardon {P D}.
Local Arguments mreq {P D}.
Local Arguments was_paused {P D}.
Local Arguments main_err {P D}.
Local Arguments exit_reason_set {P D}.
Local Arguments icause {P D}.
Local Arguments late_pause {P D}.
Local Arguments intr_err {P D}.
Local Arguments dst {P D}.
Local Arguments start_sub {P}.
Local Arguments helper_after_pre {P}.
Local Arguments helper_after_post {P}.
Local Arguments helper_set {P}.
Local Arguments helper_rewind_next {P}.
Local Arguments helper_resume {P}.
Local Arguments frame_resume {P}.
Local Arguments exec_start_suspender {P} plan_of {D} dev.
Local Arguments close_frames {P} presume {D}.
Local Arguments finalize {P} presume {D} dev.
Local Arguments drive {P} presume plan_of {D} dev.
Local Arguments task_step {P} presume plan_of {D} dev.
Local Arguments step {P} presume plan_of {D} dev.
Local Arguments run {P} presume plan_of {D} dev.

Ltac bm_hyp H :=
  match type of H with
  | context [match ?x with _ => _ end] => destruct x eqn:?
  end.
Ltac norm_hyps :=
  repeat match goal with
         | H : (if ?c then _ else _) = _ |- _ => destruct c eqn:?
         | H : match ?x with _ => _ end = (_, _) |- _ => destruct x eqn:?
         | H : (_, _) = (_, _) |- _ => inversion H; subst; clear H
         | H : Some _ = Some _ |- _ => inversion H; subst; clear H
         end.

Section Proofs.
Variable P : Type.
Variable presume : P -> input -> outcome P.

(* ------------------------------------------------------------------ frames *)
Variable pid : nat.
Hypothesis Hpid : pid < 1000.
(* the plans themselves never raise asyncio.CancelledError (the engine may throw it into them) *)
Hypothesis Hnc : forall p i, presume p i <> Raised ECancelled.

Definition wfh (h : helper P) : Prop :=
  (forall q p, hpre h = Some (q, p) -> 1000 <= q) /\ (forall q p, hpost h = Some (q, p) -> 1000 <= q) /\
  match hph h with HPre _ => hpre h <> None | HPost _ => hpost h <> None | _ => True end.
(* engine-made frames *)
Definition eng (f : frame P) : Prop := match f with FUser _ _ _ => False | FHelper h => wfh h | _ => True end.
(* frames that never resume the tracked plan *)
Definition okf (f : frame P) : Prop := match f with FUser q _ _ => q <> pid | FHelper h => wfh h | _ => True end.
Lemma eng_okf f : eng f -> okf f.
Proof. destruct f; cbn; tauto. Qed.

(* what resuming such a frame can emit: nothing, or one input to another plan *)
Definition opl (po : list obs) : Prop := po = [] \/ exists q j, po = [OPlanIn q j] /\ q <> pid.
Definition ms_after (ms : mon) (po : list obs) : mon := match po with [] => ms | _ => set_mother ms end.

Lemma MA_opl ms po : opl po -> mp ms <> SIn -> MA pid ms po (ms_after ms po).
Proof.
  intros [->|(q & j & -> & Hq)] Hn; [apply MA_nil|]. cbn.
  eapply MA_one with (fl := []). unfold mon_obs, settle.
  apply Nat.eqb_neq in Hq. rewrite Hq. destruct (mp ms); try congruence; reflexivity.
Qed.
Lemma ms_after_mp ms po : mp (ms_after ms po) = mp ms.
Proof. destruct po; reflexivity. Qed.
Lemma ms_after_mstate ms po : mstate (ms_after ms po) = mstate ms.
Proof. destruct po; reflexivity. Qed.
Lemma allowed_after ms po e : allowed_exn ms e = true -> allowed_exn (ms_after ms po) e = true.
Proof.
  destruct po; [auto|]. unfold allowed_exn. cbn. intros _. rewrite orb_true_r. reflexivity.
Qed.
Lemma allowed_after_ne ms po e : po <> [] -> allowed_exn (ms_after ms po) e = true.
Proof. destruct po; [congruence|]. intros _. unfold allowed_exn. cbn. rewrite orb_true_r. reflexivity. Qed.

Lemma helper_set_wf (h : helper P) ph :
  wfh h -> match ph with HPre _ => hpre h <> None | HPost _ => hpost h <> None | _ => True end -> wfh (helper_set h ph).
Proof. intros (a & b & c) H. split; [exact a|]. split; [exact b|]. exact H. Qed.

Lemma pid_ge q p (h : helper P) : wfh h -> (hpre h = Some (q, p) \/ hpost h = Some (q, p)) -> q <> pid.
Proof. intros (a & b & _) [H|H]; [apply a in H|apply b in H]; lia. Qed.

Lemma opl_nil : opl []. Proof. left; reflexivity. Qed.
Lemma opl_one q j : q <> pid -> opl [OPlanIn q j]. Proof. intros; right; eauto. Qed.

(* [helper_resume] with the GeneratorExit test as a boolean (avoids a 19-way case split in every proof) *)
Definition is_genexit (e : exn) : bool := match e with EPlanHalt | EGeneratorExit => true | _ => false end.
Definition sub_pid (x : option (nat * P)) : nat := match x with Some (q, _) => q | None => 0 end.
Definition sub_resume (h : helper P) (q : nat) (p : P) (i : input) (k : P -> hphase P) (after : outcome (helper P)) :
  outcome (helper P) * list obs :=
  match presume p i with
  | Yielded m p' => (Yielded m (helper_set h (k p')), [OPlanIn q i])
  | Returned _ => (after, [OPlanIn q i])
  | Raised e => (Raised e, [OPlanIn q i])
  end.
Definition helper_resume' (h : helper P) (i : input) : outcome (helper P) * list obs :=
  match i with
  | Close =>
      match hph h with
      | HPre _ => (Raised EGeneratorExit, [OPlanIn (sub_pid (hpre h)) Close])
      | HPost _ => (Raised EGeneratorExit, [OPlanIn (sub_pid (hpost h)) Close])
      | _ => (Raised EGeneratorExit, [])
      end
  | Send v =>
      match hph h with
      | H0 => (Yielded (mk (CRewindable (Some false))) (helper_set h HRwFalse), [])
      | HRwFalse => match hpre h with
                    | None => (helper_after_pre h, [])
                    | Some (q, p) => sub_resume h q p (Send VNone) HPre (helper_after_pre h)
                    end
      | HPre p => sub_resume h (sub_pid (hpre h)) p i HPre (helper_after_pre h)
      | HWait => (Yielded (mk CResumeFromSuspender) (helper_set h HResume), [])
      | HResume => match hpost h with
                   | None => (helper_after_post h, [])
                   | Some (q, p) => sub_resume h q p (Send VNone) HPost (helper_after_post h)
                   end
      | HPost p => sub_resume h (sub_pid (hpost h)) p i HPost (helper_after_post h)
      | HRwBack => (helper_rewind_next h (hrw h), [])
      | HRewind ms => (helper_rewind_next h ms, [])
      end
  | Throw e =>
      match hph h with
      | HPre p => if is_genexit e then (Raised e, [OPlanIn (sub_pid (hpre h)) Close])
                  else sub_resume h (sub_pid (hpre h)) p i HPre (helper_after_pre h)
      | HPost p => if is_genexit e then (Raised e, [OPlanIn (sub_pid (hpost h)) Close])
                   else sub_resume h (sub_pid (hpost h)) p i HPost (helper_after_post h)
      | _ => (Raised e, [])
      end
  end.
Lemma helper_resume_eq (h : helper P) i : helper_resume presume h i = helper_resume' h i.
Proof.
  unfold helper_resume, helper_resume', sub_resume, sub_pid.
  destruct (hph h); destruct i as [v|e|]; try destruct e; try reflexivity.
  all: cbn; repeat break_match_goal; reflexivity.
Qed.

Lemma sub_pid_ne (h : helper P) : wfh h -> (hpre h <> None -> sub_pid (hpre h) <> pid) /\ (hpost h <> None -> sub_pid (hpost h) <> pid).
Proof.
  intros Hw. split; intros Hn.
  - destruct (hpre h) as [[q p]|] eqn:E; [|congruence]. cbn. eapply pid_ge; [exact Hw|left; exact E].
  - destruct (hpost h) as [[q p]|] eqn:E; [|congruence]. cbn. eapply pid_ge; [exact Hw|right; exact E].
Qed.

Ltac hr_start H Hw :=
  rewrite helper_resume_eq in H;
  pose proof Hw as (Hpre & Hpost & Hph); destruct (sub_pid_ne _ Hw) as [Hn1 Hn2];
  unfold helper_resume', sub_resume, helper_after_pre, helper_after_post, helper_rewind_next in H;
  destruct (hph _) eqn:Eph; cbn in Hph.

Lemma helper_resume_opl (h : helper P) i o po : wfh h -> helper_resume presume h i = (o, po) -> opl po.
Proof.
  intros Hw H. hr_start H Hw.
  all: destruct i as [v|e|].
  all: repeat bm_hyp H; inversion H; subst; clear H; try apply opl_nil.
  all: try (apply opl_one; eapply pid_ge; [exact Hw|]; (left; eassumption) || (right; eassumption)).
  all: try (apply opl_one; auto; fail).
Qed.

Lemma helper_resume_wf (h : helper P) i m h' po : wfh h -> helper_resume presume h i = (Yielded m h', po) -> wfh h'.
Proof.
  intros Hw H. hr_start H Hw.
  all: destruct i as [v|e|].
  all: repeat bm_hyp H; inversion H; subst; clear H.
  all: try (apply helper_set_wf; [exact Hw|]; cbn; congruence || exact I || assumption).
  all: unfold wfh; cbn; (split; [|split]); try exact I; intros; try discriminate; eauto.
Qed.

Lemma helper_resume_throw_ret (h : helper P) e v po : helper_resume presume h (Throw e) = (Returned v, po) -> False.
Proof.
  intros H. rewrite helper_resume_eq in H.
  unfold helper_resume', sub_resume, helper_after_pre, helper_after_post, helper_rewind_next in H.
  repeat bm_hyp H; inversion H.
Qed.

Lemma helper_resume_raise (h : helper P) i e' po : helper_resume presume h i = (Raised e', po) ->
  po <> [] \/ i = Throw e' \/ i = Close.
Proof.
  intros H. rewrite helper_resume_eq in H.
  unfold helper_resume', sub_resume, helper_after_pre, helper_after_post, helper_rewind_next in H.
  destruct i as [v|e|]; repeat bm_hyp H; inversion H; subst; clear H; auto; left; discriminate.
Qed.

Lemma helper_resume_canc (h : helper P) i po : helper_resume presume h i = (Raised ECancelled, po) -> i = Throw ECancelled.
Proof.
  intros H. rewrite helper_resume_eq in H.
  unfold helper_resume', sub_resume, helper_after_pre, helper_after_post, helper_rewind_next in H.
  destruct i as [v|e|]; repeat bm_hyp H; inversion H; subst; clear H; try reflexivity.
  all: exfalso; eapply Hnc; eassumption.
Qed.

(* a generator that has been started (a just-started one rejects a non-None send) *)
Definition startedF (f : frame P) : Prop := match f with FSingle _ false => False | _ => True end.

Lemma frame_resume_opl (f : frame P) i o po : okf f -> frame_resume presume f i = (o, po) -> opl po.
Proof.
  intros Hf H. unfold frame_resume in H. destruct f.
  - cbn in Hf. repeat bm_hyp H; inversion H; subst; try apply opl_nil; apply opl_one; assumption.
  - repeat bm_hyp H; inversion H; subst; apply opl_nil.
  - repeat bm_hyp H; inversion H; subst; apply opl_nil.
  - destruct (helper_resume presume h i) as [o0 os0] eqn:E. inversion H; subst.
    eapply helper_resume_opl; [exact Hf|exact E].
Qed.

Lemma frame_resume_yield_eng (f : frame P) i m f' po : eng f -> frame_resume presume f i = (Yielded m f', po) ->
  eng f' /\ startedF f'.
Proof.
  intros Hf H. unfold frame_resume in H. destruct f; cbn in Hf; try contradiction.
  - repeat bm_hyp H; inversion H; subst; split; exact I.
  - repeat bm_hyp H; inversion H; subst; split; exact I.
  - destruct (helper_resume presume h i) as [o0 os0] eqn:E. destruct o0; inversion H; subst.
    split; [|exact I]. cbn. eapply helper_resume_wf; [exact Hf|exact E].
Qed.

Lemma frame_resume_yield_okf (f : frame P) i m f' po : okf f -> frame_resume presume f i = (Yielded m f', po) -> okf f'.
Proof.
  intros Hf H. destruct f; try (apply eng_okf; eapply frame_resume_yield_eng; [|exact H]; exact Hf).
  unfold frame_resume in H. cbn in Hf. repeat bm_hyp H; inversion H; subst; exact Hf.
Qed.

Lemma frame_resume_throw_ret (f : frame P) e v po : eng f -> frame_resume presume f (Throw e) = (Returned v, po) -> False.
Proof.
  intros Hf H. unfold frame_resume in H. destruct f; cbn in Hf; try contradiction.
  - inversion H.
  - inversion H.
  - destruct (helper_resume presume h (Throw e)) as [o0 os0] eqn:E. destruct o0; inversion H; subst.
    eapply helper_resume_throw_ret; exact E.
Qed.

Lemma frame_resume_raise (f : frame P) i e' po : eng f -> frame_resume presume f i = (Raised e', po) ->
  po <> [] \/ i = Throw e' \/ i = Close \/ (e' = ETypeError /\ ~ startedF f /\ exists v, i = Send v /\ v <> VNone).
Proof.
  intros Hf H. unfold frame_resume in H. destruct f; cbn in Hf; try contradiction.
  - repeat bm_hyp H; inversion H; subst; auto.
  - repeat bm_hyp H; inversion H; subst; auto.
    all: right; right; right; split; [reflexivity|]; split; [cbn; tauto|]; eexists; split; [reflexivity|discriminate].
  - destruct (helper_resume presume h i) as [o0 os0] eqn:E. destruct o0; inversion H; subst.
    apply helper_resume_raise in E. tauto.
Qed.

Lemma frame_resume_canc (f : frame P) i po : eng f -> frame_resume presume f i = (Raised ECancelled, po) -> i = Throw ECancelled.
Proof.
  intros Hf H. unfold frame_resume in H. destruct f; cbn in Hf; try contradiction.
  - repeat bm_hyp H; inversion H; subst; reflexivity.
  - repeat bm_hyp H; inversion H; subst; reflexivity.
  - destruct (helper_resume presume h i) as [o0 os0] eqn:E. destruct o0; inversion H; subst.
    eapply helper_resume_canc; exact E.
Qed.

End Proofs.

Arguments wfh {P}.
Arguments startedF {P}.
