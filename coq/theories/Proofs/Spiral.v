(* Proofs about Pure/Spiral.v: in-bounds of spiral / spiral_fermat for arbitrary trig oracles,
   and spiral_square_pattern walks a permutation of the grid with linspace coordinates. *)
From Coq Require Import ZArith QArith Qabs List Bool Lia Lqa ZifyBool FinFun Permutation.
From BV Require Import Base.Prelude Base.OrdField Pure.Spiral.
Import ListNotations.

(* ================================================================== part (b): the square walk *)
Section SquareWalk.
Local Open Scope Z_scope.
Ltac Zify.zify_post_hook ::= Z.div_mod_to_equations.

Lemma In_zrange a b z : In z (zrange a b) <-> a <= z < b.
Proof.
  unfold zrange. rewrite in_map_iff. split.
  - intros (j & <- & Hj). apply in_seq in Hj. lia.
  - intros H. exists (Z.to_nat (z - a)). split; [lia | apply in_seq; lia].
Qed.

Lemma In_zrange_dn a b z : In z (zrange_dn a b) <-> b < z <= a.
Proof.
  unfold zrange_dn. rewrite in_map_iff. split.
  - intros (j & <- & Hj). apply in_seq in Hj. lia.
  - intros H. exists (Z.to_nat (a - z)). split; [lia | apply in_seq; lia].
Qed.

Lemma NoDup_zrange a b : NoDup (zrange a b).
Proof.
  unfold zrange. apply Injective_map_NoDup; [|apply seq_NoDup].
  intros i j H. lia.
Qed.

Lemma NoDup_zrange_dn a b : NoDup (zrange_dn a b).
Proof.
  unfold zrange_dn. apply Injective_map_NoDup; [|apply seq_NoDup].
  intros i j H. lia.
Qed.

Lemma length_zrange a b : length (zrange a b) = Z.to_nat (b - a).
Proof. unfold zrange. now rewrite map_length, seq_length. Qed.

(* ---- the count guards never fire while fewer than [total] points have been found *)
Definition seg_out (s : seg) : list (Z * Z) := if fst s then map fst (filter snd (snd s)) else [].

Lemma fold_step_pt total cs : forall st,
  fst st + Z.of_nat (length (filter snd cs)) <= total ->
  fold_left (step_pt total) cs st
  = (fst st + Z.of_nat (length (filter snd cs)), rev (map fst (filter snd cs)) ++ snd st).
Proof.
  induction cs as [|[p b] cs IH]; intros [cnt acc] H; cbn [fold_left filter snd fst] in *.
  - cbn. f_equal. lia.
  - unfold step_pt at 2. cbn [fst snd]. destruct b; cbn [andb].
    + cbn [length] in H. destruct (cnt <? total) eqn:E; [|lia].
      rewrite IH by (cbn [fst]; lia). cbn [fst snd map rev length]. rewrite <- app_assoc. cbn. f_equal. lia.
    + apply IH. exact H.
Qed.

Lemma fold_step_seg total segs : forall st,
  fst st + Z.of_nat (length (flat_map seg_out segs)) <= total ->
  fold_left (step_seg total) segs st
  = (fst st + Z.of_nat (length (flat_map seg_out segs)), rev (flat_map seg_out segs) ++ snd st).
Proof.
  induction segs as [|[b cs] segs IH]; intros [cnt acc] H; cbn [fold_left flat_map] in *.
  - cbn. f_equal. lia.
  - change (seg_out (b, cs)) with (if b then map fst (filter snd cs) else []) in *.
    rewrite app_length in H. unfold step_seg at 2. cbn [fst snd] in *.
    destruct b; cbn [andb].
    + rewrite map_length in H. destruct (cnt <? total) eqn:E.
      * rewrite fold_step_pt by (cbn [fst]; lia). rewrite IH by (cbn [fst]; lia).
        cbn [fst snd]. rewrite app_length, map_length, rev_app_distr, <- app_assoc. f_equal. lia.
      * assert (L : length (filter snd cs) = 0%nat) by lia.
        destruct (filter snd cs); [|discriminate L]. cbn [map app length] in *.
        apply IH. cbn [fst]. lia.
    + cbn [app length] in *. apply IH. exact H.
Qed.

(* ---- the unguarded walk is the grid filter of the full square spiral *)
Definition ingrid (x_num y_num : Z) (p : Z * Z) : bool := inx x_num (fst p) && iny y_num (snd p).

Definition ring_all (i : Z) : list (Z * Z) :=
  map (fun n => (i - 1, n)) (zrange_dn (i - 2) (- i))
  ++ map (fun n => (n, - i + 1)) (zrange_dn (i - 2) (- i))
  ++ map (fun n => (- i + 1, n)) (zrange (- i + 2) i)
  ++ map (fun n => (n, i - 1)) (zrange (- i + 2) i).

Lemma side_out {A} (f : A -> Z * Z) (g : A -> bool) (ns : list A) :
  map fst (filter snd (map (fun n => (f n, g n)) ns)) = map f (filter g ns).
Proof.
  induction ns as [|n ns IH]; cbn; [reflexivity|]. destruct (g n); cbn; now rewrite IH.
Qed.

Lemma filter_map_swap {A B} (q : B -> bool) (f : A -> B) (ns : list A) :
  filter q (map f ns) = map f (filter (fun n => q (f n)) ns).
Proof.
  induction ns as [|n ns IH]; cbn; [reflexivity|]. destruct (q (f n)); cbn; now rewrite IH.
Qed.

Lemma filter_false {A} (l : list A) : filter (fun _ => false) l = [].
Proof. induction l; cbn; auto. Qed.

Lemma side_guard_eq x_num i : (Z.abs (2 * (i - 1) - xo2 x_num) <=? x_num) = inx x_num (i - 1).
Proof.
  unfold inx, xo2. destruct (x_num mod 2 =? 0) eqn:E;
    destruct (Z.leb_spec (Z.abs (2 * (i - 1) - 1)) x_num); destruct (Z.ltb_spec (Z.abs (2 * (i - 1) - 1)) x_num);
    destruct (Z.leb_spec (Z.abs (2 * (i - 1) - 0)) x_num); destruct (Z.ltb_spec (Z.abs (2 * (i - 1) - 0)) x_num);
    try reflexivity; lia.
Qed.

Lemma side_filter x_num y_num (b : bool) (f : Z -> Z * Z) (g : Z -> bool) ns :
  (forall n, ingrid x_num y_num (f n) = b && g n) ->
  seg_out (b, map (fun n => (f n, g n)) ns) = filter (ingrid x_num y_num) (map f ns).
Proof.
  intros H. unfold seg_out. cbn [fst snd]. rewrite side_out, filter_map_swap.
  destruct b.
  - f_equal. apply filter_ext. intros n. now rewrite H.
  - rewrite (filter_ext _ (fun _ => false)) by (intros n; now rewrite H). now rewrite filter_false.
Qed.

Lemma ring_out x_num y_num i :
  flat_map seg_out (ring_segs x_num y_num i) = filter (ingrid x_num y_num) (ring_all i).
Proof.
  unfold ring_segs, ring_all. cbn [flat_map]. rewrite app_nil_r, !filter_app.
  rewrite side_guard_eq.
  rewrite (side_filter x_num y_num _ (fun n => (i - 1, n)) (iny y_num)) by (intros n; reflexivity).
  rewrite (side_filter x_num y_num _ (fun n => (n, - i + 1)) (inx x_num))
    by (intros n; unfold ingrid; cbn [fst snd]; apply andb_comm).
  rewrite (side_filter x_num y_num _ (fun n => (- i + 1, n)) (iny y_num)) by (intros n; reflexivity).
  rewrite (side_filter x_num y_num _ (fun n => (n, i - 1)) (inx x_num))
    by (intros n; unfold ingrid; cbn [fst snd]; apply andb_comm).
  reflexivity.
Qed.

Lemma flat_map_flat_map {A B C} (f : A -> list B) (g : B -> list C) l :
  flat_map g (flat_map f l) = flat_map (fun a => flat_map g (f a)) l.
Proof. induction l as [|a l IH]; cbn; [reflexivity|]. now rewrite flat_map_app, IH. Qed.

Lemma filter_flat_map {A B} (q : B -> bool) (f : A -> list B) l :
  filter q (flat_map f l) = flat_map (fun a => filter q (f a)) l.
Proof. induction l as [|a l IH]; cbn; [reflexivity|]. now rewrite filter_app, IH. Qed.

Definition rings (x_num y_num : Z) : list Z := zrange 2 (Z.max x_num y_num + 1).
Definition full_spiral (x_num y_num : Z) : list (Z * Z) := flat_map ring_all (rings x_num y_num).

Lemma unguarded_eq x_num y_num :
  flat_map seg_out (all_segs x_num y_num) = filter (ingrid x_num y_num) (full_spiral x_num y_num).
Proof.
  unfold all_segs, full_spiral. fold (rings x_num y_num).
  rewrite flat_map_flat_map, filter_flat_map. apply flat_map_ext. intros i. apply ring_out.
Qed.

(* ---- rings are Chebyshev shells *)
Definition cheb (p : Z * Z) : Z := Z.max (Z.abs (fst p)) (Z.abs (snd p)).

Lemma in_ring_all i px py : 2 <= i -> (In (px, py) (ring_all i) <-> cheb (px, py) = i - 1).
Proof.
  intros Hi. unfold ring_all, cheb. cbn [fst snd]. rewrite !in_app_iff, !in_map_iff. split.
  - intros [(n & E & Hn)|[(n & E & Hn)|[(n & E & Hn)|(n & E & Hn)]]]; inversion E; subst;
      try apply In_zrange in Hn; try apply In_zrange_dn in Hn; lia.
  - intros H.
    assert (C : (px = i - 1 /\ py <= i - 2) \/ (py = - i + 1 /\ px <= i - 2) \/
                (px = - i + 1 /\ - i + 2 <= py) \/ (py = i - 1 /\ - i + 2 <= px)) by lia.
    destruct C as [[-> C]|[[-> C]|[[-> C]|[-> C]]]].
    + left. exists py. split; [reflexivity|]. apply In_zrange_dn. lia.
    + right; left. exists px. split; [reflexivity|]. apply In_zrange_dn. lia.
    + right; right; left. exists py. split; [reflexivity|]. apply In_zrange. lia.
    + right; right; right. exists px. split; [reflexivity|]. apply In_zrange. lia.
Qed.

Lemma NoDup_app_intro {A} (l1 l2 : list A) :
  NoDup l1 -> NoDup l2 -> (forall x, In x l1 -> In x l2 -> False) -> NoDup (l1 ++ l2).
Proof.
  induction l1 as [|a l1 IH]; intros H1 H2 D; cbn; [exact H2|].
  inversion H1; subst. constructor.
  - rewrite in_app_iff. intros [H|H]; [contradiction|]. apply (D a); [now left | exact H].
  - apply IH; auto. intros x Hx. apply D. now right.
Qed.

Lemma NoDup_ring_all i : 2 <= i -> NoDup (ring_all i).
Proof.
  intros Hi. unfold ring_all.
  assert (N1 : forall (c : Z) l, NoDup l -> NoDup (map (fun n : Z => (c, n)) l)).
  { intros c l. apply Injective_map_NoDup. intros a b E. now inversion E. }
  assert (N2 : forall (c : Z) l, NoDup l -> NoDup (map (fun n : Z => (n, c)) l)).
  { intros c l. apply Injective_map_NoDup. intros a b E. now inversion E. }
  repeat apply NoDup_app_intro;
    try (apply N1 || apply N2); try apply NoDup_zrange; try apply NoDup_zrange_dn;
    intros [px py]; rewrite ?in_app_iff, !in_map_iff;
    intros (n & E & Hn); inversion E; subst; clear E;
    try apply In_zrange in Hn; try apply In_zrange_dn in Hn;
    intros H; repeat (destruct H as [H|H]); destruct H as (m & E & Hm); inversion E; subst;
    try apply In_zrange in Hm; try apply In_zrange_dn in Hm; lia.
Qed.

Lemma NoDup_flat_map_key {A B} (key : B -> A) (f : A -> list B) (l : list A) :
  (forall a b, In b (f a) -> key b = a) -> (forall a, In a l -> NoDup (f a)) -> NoDup l ->
  NoDup (flat_map f l).
Proof.
  intros K. induction l as [|a l IH]; intros Hf Hl; cbn; [constructor|].
  inversion Hl; subst. apply NoDup_app_intro.
  - apply Hf. now left.
  - apply IH; auto. intros a' Ha'. apply Hf. now right.
  - intros b Hb Hb'. apply in_flat_map in Hb' as (a' & Ha' & Hb'). apply K in Hb. apply K in Hb'.
    congruence.
Qed.

Lemma in_rings x_num y_num i : In i (rings x_num y_num) <-> 2 <= i <= Z.max x_num y_num.
Proof. unfold rings. rewrite In_zrange. lia. Qed.

Lemma NoDup_full_spiral x_num y_num : NoDup (full_spiral x_num y_num).
Proof.
  unfold full_spiral. apply (NoDup_flat_map_key (fun p => cheb p + 1)).
  - intros i [px py] H. destruct (Z_le_gt_dec 2 i) as [Hi|Hi].
    + apply in_ring_all in H; lia.
    + exfalso. unfold ring_all in H. rewrite !in_app_iff, !in_map_iff in H.
      destruct H as [(n & _ & Hn)|[(n & _ & Hn)|[(n & _ & Hn)|(n & _ & Hn)]]];
        try apply In_zrange in Hn; try apply In_zrange_dn in Hn; lia.
  - intros i Hi. apply in_rings in Hi. apply NoDup_ring_all. lia.
  - apply NoDup_zrange.
Qed.

Lemma in_full_spiral x_num y_num p :
  In p (full_spiral x_num y_num) <-> 1 <= cheb p <= Z.max x_num y_num - 1.
Proof.
  unfold full_spiral. rewrite in_flat_map. destruct p as [px py]. split.
  - intros (i & Hi & H). apply in_rings in Hi. apply in_ring_all in H; lia.
  - intros H. exists (cheb (px, py) + 1). split; [apply in_rings; lia | apply in_ring_all; lia].
Qed.

(* ---- the grid *)
Lemma inx_range n k : inx n k = true <-> kmin n (xo2 n) <= k < kmin n (xo2 n) + n.
Proof.
  unfold inx, kmin, xo2. destruct (n mod 2 =? 0) eqn:E; rewrite Z.ltb_lt; lia.
Qed.

Lemma iny_range n k : iny n k = true <-> kmin n (yo2 n) <= k < kmin n (yo2 n) + n.
Proof.
  unfold iny, kmin, yo2. destruct (n mod 2 =? 0) eqn:E; rewrite Z.ltb_lt; lia.
Qed.

Definition grid_list (x_num y_num : Z) : list (Z * Z) :=
  list_prod (zrange (kmin x_num (xo2 x_num)) (kmin x_num (xo2 x_num) + x_num))
            (zrange (kmin y_num (yo2 y_num)) (kmin y_num (yo2 y_num) + y_num)).

Lemma in_grid_list x_num y_num p : In p (grid_list x_num y_num) <-> ingrid x_num y_num p = true.
Proof.
  destruct p as [px py]. unfold grid_list, ingrid. cbn [fst snd].
  rewrite in_prod_iff, !In_zrange, andb_true_iff, inx_range, iny_range. reflexivity.
Qed.

Lemma length_grid_list x_num y_num : 0 <= x_num -> 0 <= y_num ->
  length (grid_list x_num y_num) = Z.to_nat (x_num * y_num).
Proof.
  intros Hx Hy. unfold grid_list. rewrite prod_length, !length_zrange.
  replace (kmin x_num (xo2 x_num) + x_num - kmin x_num (xo2 x_num)) with x_num by lia.
  replace (kmin y_num (yo2 y_num) + y_num - kmin y_num (yo2 y_num)) with y_num by lia.
  now rewrite Z2Nat.inj_mul.
Qed.

Lemma NoDup_list_prod {A B} (l : list A) (l' : list B) : NoDup l -> NoDup l' -> NoDup (list_prod l l').
Proof.
  intros Hl Hl'. induction l as [|a l IH]; cbn; [constructor|]. inversion Hl; subst.
  apply NoDup_app_intro.
  - apply Injective_map_NoDup; [|exact Hl']. intros x y E. now inversion E.
  - now apply IH.
  - intros [x y] G1 G2. apply in_map_iff in G1 as (z & E & _). inversion E; subst.
    apply in_prod_iff in G2 as [G2 _]. contradiction.
Qed.

Lemma NoDup_grid_list x_num y_num : NoDup (grid_list x_num y_num).
Proof. apply NoDup_list_prod; apply NoDup_zrange. Qed.

(* the unguarded walk, with its first point *)
Definition walk_u (x_num y_num : Z) : list (Z * Z) :=
  (0, 0) :: filter (ingrid x_num y_num) (full_spiral x_num y_num).

Lemma in_walk_u x_num y_num p : 2 <= x_num -> 2 <= y_num ->
  (In p (walk_u x_num y_num) <-> ingrid x_num y_num p = true).
Proof.
  intros Hx Hy. unfold walk_u. cbn [In]. rewrite filter_In, in_full_spiral.
  destruct p as [px py]. unfold ingrid, cheb. cbn [fst snd].
  rewrite andb_true_iff, inx_range, iny_range. unfold kmin, xo2, yo2.
  destruct (x_num mod 2 =? 0) eqn:Ex; destruct (y_num mod 2 =? 0) eqn:Ey.
  all: split; [intros [E|[_ H]]; [inversion E; subst; lia | exact H] | intros H].
  all: destruct (Z.eq_dec px 0) as [->|Npx]; [destruct (Z.eq_dec py 0) as [->|Npy]; [now left|]|];
       right; (split; [lia | exact H]).
Qed.

Lemma NoDup_walk_u x_num y_num : NoDup (walk_u x_num y_num).
Proof.
  unfold walk_u. constructor.
  - rewrite filter_In, in_full_spiral. unfold cheb. cbn. lia.
  - apply NoDup_filter, NoDup_full_spiral.
Qed.

Lemma length_walk_u x_num y_num : 2 <= x_num -> 2 <= y_num ->
  length (walk_u x_num y_num) = Z.to_nat (x_num * y_num).
Proof.
  intros Hx Hy. rewrite <- length_grid_list by lia.
  apply Permutation_length, NoDup_Permutation.
  - apply NoDup_walk_u.
  - apply NoDup_grid_list.
  - intros p. rewrite in_walk_u, in_grid_list by assumption. reflexivity.
Qed.

(* the guarded walk of the code IS the unguarded one *)
Lemma square_idx_eq x_num y_num : 2 <= x_num -> 2 <= y_num ->
  square_idx x_num y_num = walk_u x_num y_num.
Proof.
  intros Hx Hy. unfold square_idx, square_rest, walk_u. f_equal.
  pose proof (length_walk_u x_num y_num Hx Hy) as L. unfold walk_u in L. cbn [length] in L.
  rewrite <- unguarded_eq in L |- *.
  rewrite fold_step_seg; cbn [fst snd].
  - now rewrite app_nil_r, rev_involutive.
  - lia.
Qed.

Theorem square_permutation x_num y_num : 2 <= x_num -> 2 <= y_num ->
  NoDup (square_idx x_num y_num) /\
  (forall kx ky, In (kx, ky) (square_idx x_num y_num) <->
                 kmin x_num (xo2 x_num) <= kx < kmin x_num (xo2 x_num) + x_num /\
                 kmin y_num (yo2 y_num) <= ky < kmin y_num (yo2 y_num) + y_num) /\
  length (square_idx x_num y_num) = Z.to_nat (x_num * y_num).
Proof.
  intros Hx Hy. rewrite square_idx_eq by assumption. split; [|split].
  - apply NoDup_walk_u.
  - intros kx ky. rewrite in_walk_u by assumption. unfold ingrid. cbn [fst snd].
    now rewrite andb_true_iff, inx_range, iny_range.
  - now apply length_walk_u.
Qed.

Lemma kmin_exact_x n : 2 * kmin n (xo2 n) = 1 - n + xo2 n.
Proof. unfold kmin, xo2. destruct (n mod 2 =? 0) eqn:E; lia. Qed.
Lemma kmin_exact_y n : 2 * kmin n (yo2 n) = 1 - n + yo2 n.
Proof. unfold kmin, yo2. destruct (n mod 2 =? 0) eqn:E; lia. Qed.

End SquareWalk.

(* ================================================================== part (b): coordinates *)
Section SquareCoords.
Local Open Scope Q_scope.

Lemma coord_linspace (c r : Q) (n o2 k : Z) :
  (2 <= n)%Z -> (2 * kmin n o2 = 1 - n + o2)%Z ->
  sq_coord QO c (r / inject_Z (n - 1)) (sq_off QO o2) k
  == linspace (c - r / 2) (c + r / 2) n (k - kmin n o2).
Proof.
  intros Hn Hk. unfold sq_coord, linspace, sq_off. cbn [add sub mul div zero of_Z QO].
  assert (N1 : ~ inject_Z (n - 1) == 0).
  { change 0 with (inject_Z 0). rewrite inject_Z_injective. lia. }
  assert (K : inject_Z (kmin n o2) == (1 - inject_Z n + inject_Z o2) / 2).
  { assert (E : 2 * inject_Z (kmin n o2) == 1 - inject_Z n + inject_Z o2).
    { assert (E0 : inject_Z (2 * kmin n o2) == inject_Z (1 + - n + o2)).
      { rewrite inject_Z_injective. lia. }
      rewrite inject_Z_mult, !inject_Z_plus, inject_Z_opp in E0. exact E0. }
    rewrite <- E. field. }
  unfold Zminus at 3. rewrite inject_Z_plus, inject_Z_opp, K.
  unfold Zminus in N1 |- *. rewrite inject_Z_plus, inject_Z_opp in N1 |- *.
  change (inject_Z 1) with 1 in *. change (inject_Z 2) with 2.
  destruct (o2 =? 0)%Z eqn:E.
  - apply Z.eqb_eq in E. subst o2. change (inject_Z 0) with 0. field. exact N1.
  - field. exact N1.
Qed.

Lemma Forall2_map_r {A B} (R : A -> B -> Prop) (f : A -> B) (l : list A) :
  (forall a, R a (f a)) -> Forall2 R l (map f l).
Proof. intros H. induction l; cbn; constructor; auto. Qed.

Theorem square_coordinates xc yc xr yr x_num y_num pts :
  (2 <= x_num)%Z -> (2 <= y_num)%Z ->
  spiral_square_pattern QO xc yc xr yr x_num y_num = Ok pts ->
  Forall2 (fun (k : Z * Z) (p : Q * Q) =>
             fst p == linspace (xc - xr / 2) (xc + xr / 2) x_num (fst k - kmin x_num (xo2 x_num)) /\
             snd p == linspace (yc - yr / 2) (yc + yr / 2) y_num (snd k - kmin y_num (yo2 y_num)))
          (square_idx x_num y_num) pts.
Proof.
  intros Hx Hy. unfold spiral_square_pattern.
  destruct ((x_num - 1 =? 0)%Z || (y_num - 1 =? 0)%Z) eqn:E; [lia|].
  intros H. inversion H; subst; clear H. unfold square_idx.
  pose proof (kmin_exact_x x_num) as Kx. pose proof (kmin_exact_y y_num) as Ky.
  constructor.
  - cbn [fst snd]. split.
    + rewrite <- (coord_linspace xc xr x_num (xo2 x_num) 0 Hx Kx).
      unfold sq_coord. cbn [add sub mul div zero of_Z QO]. change (inject_Z 0) with 0. ring.
    + rewrite <- (coord_linspace yc yr y_num (yo2 y_num) 0 Hy Ky).
      unfold sq_coord. cbn [add sub mul div zero of_Z QO]. change (inject_Z 0) with 0. ring.
  - apply Forall2_map_r. intros [kx ky]. cbn [fst snd]. split.
    + apply (coord_linspace xc xr x_num (xo2 x_num) kx Hx Kx).
    + apply (coord_linspace yc yr y_num (yo2 y_num) ky Hy Ky).
Qed.

End SquareCoords.

(* ================================================================== part (a): in bounds *)
Section InBounds.
Local Open Scope Q_scope.
Variable T : Trig Q.

Lemma Qeq_bool_false a b : Qeq_bool a b = false -> ~ a == b.
Proof. intros H E. apply Qeq_bool_iff in E. congruence. Qed.

Lemma Qhalf (x : Q) : x / 2 == x * (1 # 2).
Proof. field. Qed.

Lemma half_y_bound (yr a y : Q) :
  ~ 2 * a == 0 -> Qabs (y / a) <= yr / (2 * a) ->
  Qabs y <= Qabs yr / 2 /\ (0 < a -> Qabs y <= yr / 2).
Proof.
  intros Ha H.
  assert (Ha' : ~ a == 0) by (intros E; apply Ha; rewrite E; ring).
  set (q := y / a) in *. set (h := yr / (2 * a)) in *.
  assert (Ey : y == q * a) by (unfold q; field; exact Ha').
  assert (Eh : yr == h * (2 * a)) by (unfold h; field; exact Ha').
  clearbody q h.
  assert (Ay : Qabs y == Qabs q * Qabs a) by (rewrite Ey; apply Qabs_Qmult).
  pose proof (Qabs_nonneg q) as Pq.
  destruct (Qlt_le_dec 0 a) as [Pa|Na].
  - assert (Aa : Qabs a == a) by (apply Qabs_pos; lra).
    assert (B : Qabs y <= yr / 2).
    { rewrite Ay, Aa, Eh, Qhalf. nra. }
    split; [|intros _; exact B].
    pose proof (Qle_Qabs yr). rewrite Qhalf in B |- *. lra.
  - assert (Na' : a < 0) by (destruct (Qlt_le_dec a 0); [assumption | exfalso; apply Ha'; lra]).
    assert (Aa : Qabs a == - a) by (apply Qabs_neg; lra).
    split; [|intros Pa; lra].
    assert (B : Qabs y <= - yr / 2).
    { rewrite Ay, Aa, Eh, Qhalf. nra. }
    pose proof (Qle_Qabs (- yr)) as L. rewrite Qabs_opp in L. rewrite Qhalf in B |- *. lra.
Qed.

Lemma accept_in_rect (xr yr a tt x y : Q) :
  ~ 2 * a == 0 ->
  accept QO (xr / 2) (yr / (2 * a)) a tt x y = true -> in_rect xr yr a tt x y.
Proof.
  intros Ha. unfold accept. cbn [eqb leb abs sub div zero QO].
  destruct (Qeq_bool tt 0) eqn:Et; [discriminate|].
  intros H. apply andb_true_iff in H as [H1 H2]. apply Qle_bool_iff in H1, H2.
  apply Qeq_bool_false in Et.
  destruct (half_y_bound yr a y Ha H2) as [B1 B2]. unfold in_rect. auto.
Qed.

Lemma res_mapM_ok {A B} (f : A -> res B) l ls :
  res_mapM f l = Ok ls -> forall b, In b ls -> exists a, In a l /\ f a = Ok b.
Proof.
  revert ls. induction l as [|a l IH]; cbn; intros ls H b Hb.
  - inversion H; subst. contradiction.
  - destruct (f a) eqn:Ea; try discriminate. cbn in H.
    destruct (res_mapM f l) eqn:El; try discriminate. cbn in H. inversion H; subst.
    destruct Hb as [<-|Hb].
    + exists a. auto.
    + destruct (IH _ eq_refl b Hb) as (a' & Ha' & E). exists a'. auto.
Qed.

(* every candidate's flag is the acceptance test with the same half-widths, aspect and tan *)
Definition trace_ok (xr yr a tilt : Q) (tr : list (cand Q)) : Prop :=
  forall c, In c tr ->
    c_ok c = accept QO (xr / 2) (yr / (2 * a)) a (tanf T (tilt + pi T / 2)) (c_x c) (c_y c).

Lemma aspect_half_y dr dr_y yr a hy :
  aspect QO dr dr_y = Ok a -> half_y_of QO yr a = Ok hy -> ~ 2 * a == 0 /\ hy = yr / (2 * a).
Proof.
  intros _. unfold half_y_of. cbn [eqb mul div of_Z zero QO]. change (inject_Z 2) with 2.
  destruct (Qeq_bool (2 * a) 0) eqn:E; [discriminate|]. intros H. inversion H; subst.
  split; [now apply Qeq_bool_false | reflexivity].
Qed.

Lemma spiral_trace_ok xr yr dr nth dr_y tilt tr :
  spiral_trace QO T xr yr dr nth dr_y tilt = Ok tr ->
  exists a, aspect QO dr dr_y = Ok a /\ ~ 2 * a == 0 /\ trace_ok xr yr a tilt tr.
Proof.
  unfold spiral_trace. destruct (aspect QO dr dr_y) as [a| | | |] eqn:Ea; try discriminate. cbn [res_bind].
  destruct (half_y_of QO yr a) as [hy| | | |] eqn:Eh; try discriminate. cbn [res_bind].
  destruct (aspect_half_y _ _ _ _ _ Ea Eh) as [Ha ->].
  destruct (np_div_int QO _ dr) as [q| | | |]; try discriminate. cbn [res_bind]. unfold res_map.
  destruct (res_mapM _ _) as [ls| | | |] eqn:Em; try discriminate. cbn [res_bind].
  intros H. inversion H; subst; clear H. exists a. split; [reflexivity|]. split; [exact Ha|].
  intros c Hc. apply in_concat in Hc as (l & Hl & Hc).
  destruct (res_mapM_ok _ _ _ Em l Hl) as (i & _ & Ei). unfold spiral_ring in Ei.
  destruct (eqb QO _ _); [discriminate|]. inversion Ei; subst; clear Ei.
  apply in_map_iff in Hc as (k & <- & _). reflexivity.
Qed.

Lemma fermat_trace_ok xr yr dr factor dr_y tilt tr :
  fermat_trace QO T xr yr dr factor dr_y tilt = Ok tr ->
  exists a, aspect QO dr dr_y = Ok a /\ ~ 2 * a == 0 /\ trace_ok xr yr a tilt tr.
Proof.
  unfold fermat_trace. destruct (aspect QO dr dr_y) as [a| | | |] eqn:Ea; try discriminate. cbn [res_bind].
  destruct (half_y_of QO yr a) as [hy| | | |] eqn:Eh; try discriminate. cbn [res_bind].
  destruct (aspect_half_y _ _ _ _ _ Ea Eh) as [Ha ->].
  destruct (eqb QO factor _); [discriminate|].
  match goal with |- res_bind ?r _ = _ -> _ => destruct r as [n| | | |]; try discriminate end. cbn [res_bind].
  intros H. inversion H; subst; clear H. exists a. split; [reflexivity|]. split; [exact Ha|].
  intros c Hc. apply in_map_iff in Hc as (k & <- & _). reflexivity.
Qed.

Lemma emit_in_rect x0 y0 xr yr a tilt tr pts :
  ~ 2 * a == 0 -> trace_ok xr yr a tilt tr -> cyc_add (emit QO x0 y0 tr) = Ok pts ->
  forall p, In p pts -> exists x y, p = (x0 + x, y0 + y) /\ in_rect xr yr a (tanf T (tilt + pi T / 2)) x y.
Proof.
  intros Ha Htr H p Hp. unfold cyc_add in H. destruct (emit QO x0 y0 tr) eqn:E; [discriminate|].
  inversion H; subst; clear H. rewrite <- E in Hp. unfold emit in Hp.
  apply in_map_iff in Hp as (c & <- & Hc). apply filter_In in Hc as [Hc Hok].
  exists (c_x c), (c_y c). split; [reflexivity|].
  apply accept_in_rect; [exact Ha|]. rewrite <- (Htr c Hc). exact Hok.
Qed.

Theorem spiral_in_bounds x0 y0 xr yr dr nth dr_y tilt pts :
  spiral QO T x0 y0 xr yr dr nth dr_y tilt = Ok pts ->
  exists a, aspect QO dr dr_y = Ok a /\ ~ a == 0 /\
    forall p, In p pts -> exists x y, p = (x0 + x, y0 + y) /\ in_rect xr yr a (tanf T (tilt + pi T / 2)) x y.
Proof.
  unfold spiral. destruct (spiral_trace QO T xr yr dr nth dr_y tilt) as [tr| | | |] eqn:E; try discriminate.
  cbn [res_bind]. intros H. destruct (spiral_trace_ok _ _ _ _ _ _ _ E) as (a & Ea & Ha & Htr).
  exists a. split; [exact Ea|]. split; [intros Z; apply Ha; rewrite Z; ring|].
  exact (emit_in_rect x0 y0 xr yr a tilt tr pts Ha Htr H).
Qed.

Theorem spiral_fermat_in_bounds x0 y0 xr yr dr factor dr_y tilt pts :
  spiral_fermat QO T x0 y0 xr yr dr factor dr_y tilt = Ok pts ->
  exists a, aspect QO dr dr_y = Ok a /\ ~ a == 0 /\
    forall p, In p pts -> exists x y, p = (x0 + x, y0 + y) /\ in_rect xr yr a (tanf T (tilt + pi T / 2)) x y.
Proof.
  unfold spiral_fermat. destruct (fermat_trace QO T xr yr dr factor dr_y tilt) as [tr| | | |] eqn:E; try discriminate.
  cbn [res_bind]. intros H. destruct (fermat_trace_ok _ _ _ _ _ _ _ E) as (a & Ea & Ha & Htr).
  exists a. split; [exact Ea|]. split; [intros Z; apply Ha; rewrite Z; ring|].
  exact (emit_in_rect x0 y0 xr yr a tilt tr pts Ha Htr H).
Qed.

(* the test of the unrepaired spiral_fermat, `abs(y) <= half_y`, lets points outside through (finding C27-a,
   repaired by fixes/C27-a.diff): aspect 1/2, y_range 2, y = 3/2 *)
Definition accept_unfixed (half_x half_y a tt x y : Q) : bool :=
  if Qeq_bool tt 0 then false else Qle_bool (Qabs (x - (y / a) / tt)) half_x && Qle_bool (Qabs y) half_y.

Lemma unfixed_test_refuted :
  exists xr yr a tt x y, ~ 2 * a == 0 /\ accept_unfixed (xr / 2) (yr / (2 * a)) a tt x y = true /\
                         ~ in_rect xr yr a tt x y.
Proof.
  exists 2, 2, (1 # 2), 1000, 0, (3 # 2). split; [|split].
  - intros H. vm_compute in H. discriminate.
  - vm_compute. reflexivity.
  - intros (H & _). vm_compute in H. apply H. reflexivity.
Qed.

End InBounds.
