(* C30 -- model of bluesky/suspenders.py (model only, no proofs).

   Values, thresholds, band limits and expected values range over an arbitrary type [T]
   with the three Python operations the code applies to them:
     ltb a b   = Python  a < b      (a > b is modelled as ltb b a, as for every Python number)
     eqb a b   = Python  a == b     (a != b is negb (eqb a b))
     truthy a  = Python  bool(a)
   Nothing else is assumed here; the order law the theorems need (Proofs/SuspCond.v) is a
   hypothesis there.  [Qops] at the end is the exact-rational instance the correspondence
   runs (every non-NaN Python int/float/bool is an exact rational).

   Modelled code (source names kept):
     - the eight built-in classes' constructors: defaulting of resume_thresh /
       expected_value, _validate, the band check          -> [construct]
     - _should_suspend / _should_resume per class            -> [should_suspend], [should_resume]
     - SuspenderBase.__call__, install, remove: RE is None?, _ev, _tripped, the
       request_suspend / ev.set scheduling                   -> [call], [step], [run]
   SuspendWhenChanged.__init__ is modelled as
       expected_value = signal.value if expected_value is None else expected_value
   (the repaired line, fixes/C30-a.diff); [construct_old] keeps the previous
   `expected_value or signal.value` for the regression lemma. *)
From BV Require Import Base.Prelude.
From Coq Require Import QArith.

Section Model.
  Variable T : Type.
  Variable ltb : T -> T -> bool.
  Variable eqb : T -> T -> bool.
  Variable truthy : T -> bool.

  (* constructor arguments, one constructor per built-in class *)
  Inductive args :=
  | ABoolHigh
  | ABoolLow
  | AFloor (suspend_thresh : T) (resume_thresh : option T)
  | ACeil (suspend_thresh : T) (resume_thresh : option T)
  | AWhenOutsideBand (band_bottom band_top : T)
  | AInBand (band_bottom band_top : T)          (* deprecated alias: subclass of SuspendWhenOutsideBand *)
  | AOutBand (band_bottom band_top : T)         (* deprecated: suspends INSIDE the band *)
  | AWhenChanged (expected_value : option T) (allow_resume : bool) (signal_value : T).

  (* the instance attributes that decide: _suspend_thresh/_resume_thresh, _bot/_top,
     expected_value/allow_resume *)
  Inductive susp :=
  | SBoolHigh
  | SBoolLow
  | SFloor (s r : T)
  | SCeil (s r : T)
  | SOutside (bot top : T)
  | SInside (bot top : T)
  | SChanged (e : T) (allow : bool).

  (* `x if o is None` defaulting *)
  Definition default_none (o : option T) (d : T) : T :=
    match o with Some x => x | None => d end.

  (* `o or d` -- the defaulting SuspendWhenChanged used before the repair *)
  Definition default_or (o : option T) (d : T) : T :=
    match o with Some x => if truthy x then x else d | None => d end.

  (* None = ValueError *)
  Definition construct (a : args) : option susp :=
    match a with
    | ABoolHigh => Some SBoolHigh
    | ABoolLow => Some SBoolLow
    | AFloor s r =>
        let r' := default_none r s in
        if ltb r' s then None else Some (SFloor s r')             (* resume < suspend: ValueError *)
    | ACeil s r =>
        let r' := default_none r s in
        if ltb s r' then None else Some (SCeil s r')              (* resume > suspend: ValueError *)
    | AWhenOutsideBand b t => if ltb b t then Some (SOutside b t) else None
    | AInBand b t => if ltb b t then Some (SOutside b t) else None
    | AOutBand b t => if ltb b t then Some (SInside b t) else None
    | AWhenChanged e allow sv => Some (SChanged (default_none e sv) allow)
    end.

  Definition construct_old (a : args) : option susp :=
    match a with
    | AWhenChanged e allow sv => Some (SChanged (default_or e sv) allow)
    | _ => construct a
    end.

  Definition in_band (bot top v : T) : bool := ltb bot v && ltb v top.   (* bot < v < top *)

  Definition should_suspend (su : susp) (v : T) : bool :=
    match su with
    | SBoolHigh => truthy v
    | SBoolLow => negb (truthy v)
    | SFloor s _ => ltb v s                    (* operator.lt(value, suspend_thresh) *)
    | SCeil s _ => ltb s v                     (* operator.gt(value, suspend_thresh) *)
    | SOutside b t => negb (in_band b t v)
    | SInside b t => in_band b t v
    | SChanged e _ => negb (eqb v e)
    end.

  Definition should_resume (su : susp) (v : T) : bool :=
    match su with
    | SBoolHigh => negb (truthy v)
    | SBoolLow => truthy v
    | SFloor _ r => negb (ltb v r)
    | SCeil _ r => negb (ltb r v)
    | SOutside b t => in_band b t v
    | SInside b t => negb (in_band b t v)
    | SChanged e allow => allow && eqb v e
    end.

  (* ---- SuspenderBase state and __call__ ------------------------------------------- *)

  Record sstate := mkS {
    st_installed : bool;        (* self.RE is not None *)
    st_ev : option nat;         (* self._ev: None or the k-th asyncio.Event created *)
    st_tripped : bool;          (* self._tripped *)
    st_next : nat               (* number of events created so far *)
  }.

  Definition init_state : sstate := mkS false None false 0.

  Inductive obs :=
  | OReq (ev : nat)        (* loop.call_soon_threadsafe(partial(RE.request_suspend, ev.wait, ...)) *)
  | ORelease (ev : nat)    (* __set_event: loop.call_later(sleep, ev.set) scheduled *)
  | ORaise.                (* RuntimeError: the loop did not create the event within 0.1 s *)

  (* what __call__ reads from its surroundings *)
  Record env := mkEnv {
    running : bool;          (* RE.state.is_running *)
    responsive : bool        (* the loop runs really_make_the_event in time *)
  }.

  Definition set_event (st : sstate) : list obs :=
    match st_ev st with Some e => [ORelease e] | None => [] end.

  Definition call (su : susp) (st : sstate) (v : T) (en : env) : sstate * list obs :=
    if negb (st_installed st) then (st, [])
    else if should_suspend su v then
      match st_ev st with
      | Some _ => (mkS true (st_ev st) true (st_next st), [])
      | None =>
          if responsive en then
            let e := st_next st in
            (mkS true (Some e) true (S e), if running en then [OReq e] else [])
          else (mkS true None true (st_next st), [ORaise])
      end
    else if should_resume su v then
      (mkS true None false (st_next st), set_event st)
    else (st, []).

  Inductive op :=
  | OpInstall (v : T) (en : env)   (* install(RE): RE set, signal.subscribe(self, run=True) calls self(v) *)
  | OpRemove                       (* remove() *)
  | OpValue (v : T) (en : env).    (* the signal reports v *)

  Definition step (su : susp) (st : sstate) (o : op) : sstate * list obs :=
    match o with
    | OpInstall v en => call su (mkS true (st_ev st) (st_tripped st) (st_next st)) v en
    | OpValue v en => call su st v en
    | OpRemove =>
        if st_installed st
        then (mkS false None false (st_next st), set_event st)
        else (mkS false (st_ev st) false (st_next st), [])
    end.

  (* whole history: final state and, per operation, what was scheduled and the state after it *)
  Fixpoint run (su : susp) (st : sstate) (h : list op) : sstate * list (list obs * sstate) :=
    match h with
    | [] => (st, [])
    | o :: h' =>
        let '(st1, os) := step su st o in
        let '(st2, tr) := run su st1 h' in
        (st2, (os, st1) :: tr)
    end.

  Definition run_values (su : susp) (st : sstate) (cs : list (T * env)) : sstate :=
    fold_left (fun s c => fst (call su s (fst c) (snd c))) cs st.

  (* ---- the documented conditions, written from the arguments as given -------------- *)

  Definition doc_valid (a : args) : bool :=
    match a with
    | AFloor s r => negb (ltb (default_none r s) s)
    | ACeil s r => negb (ltb s (default_none r s))
    | AWhenOutsideBand b t | AInBand b t | AOutBand b t => ltb b t
    | _ => true
    end.

  Definition doc_suspend (a : args) (v : T) : bool :=
    match a with
    | ABoolHigh => truthy v
    | ABoolLow => negb (truthy v)
    | AFloor s _ => ltb v s
    | ACeil s _ => ltb s v
    | AWhenOutsideBand b t | AInBand b t => negb (ltb b v && ltb v t)
    | AOutBand b t => ltb b v && ltb v t
    | AWhenChanged e _ sv => negb (eqb v (default_none e sv))
    end.

  Definition doc_resume (a : args) (v : T) : bool :=
    match a with
    | ABoolHigh => negb (truthy v)
    | ABoolLow => truthy v
    | AFloor s r => negb (ltb v (default_none r s))
    | ACeil s r => negb (ltb (default_none r s) v)
    | AWhenOutsideBand b t | AInBand b t => ltb b v && ltb v t
    | AOutBand b t => negb (ltb b v && ltb v t)
    | AWhenChanged e allow sv => allow && eqb v (default_none e sv)
    end.

  (* the last value of a sequence at which the suspender takes a decision *)
  Definition decisive (su : susp) (v : T) : bool := should_suspend su v || should_resume su v.

  Fixpoint last_decisive (su : susp) (vs : list T) : option T :=
    match vs with
    | [] => None
    | v :: vs' =>
        match last_decisive su vs' with
        | Some w => Some w
        | None => if decisive su v then Some v else None
        end
    end.

  (* ---- comparison helpers for the generated cases ---------------------------------- *)

  Definition obs_beq (x y : obs) : bool :=
    match x, y with
    | OReq a, OReq b | ORelease a, ORelease b => Nat.eqb a b
    | ORaise, ORaise => true
    | _, _ => false
    end.

  (* one observed step: scheduled actions, tripped, _ev, and what the instance's own
     _should_suspend/_should_resume answered for the value of that step (value steps only) *)
  Record seen := mkSeen {
    seen_obs : list obs;
    seen_tripped : bool;
    seen_ev : option nat;
    seen_conds : option (bool * bool)
  }.

  Definition op_value (o : op) : option T :=
    match o with OpInstall v _ | OpValue v _ => Some v | OpRemove => None end.

  Definition step_matches (su : susp) (o : op) (r : list obs * sstate) (s : seen) : bool :=
    list_beq obs_beq (fst r) (seen_obs s)
    && Bool.eqb (st_tripped (snd r)) (seen_tripped s)
    && option_beq Nat.eqb (st_ev (snd r)) (seen_ev s)
    && match op_value o, seen_conds s with
       | Some v, Some (a, b) => Bool.eqb (should_suspend su v) a && Bool.eqb (should_resume su v) b
       | None, None => true
       | _, _ => false
       end.

  Fixpoint steps_match (su : susp) (h : list op) (tr : list (list obs * sstate)) (ss : list seen) : bool :=
    match h, tr, ss with
    | [], [], [] => true
    | o :: h', r :: tr', s :: ss' => step_matches su o r s && steps_match su h' tr' ss'
    | _, _, _ => false
    end.

  (* answers of the instance's own _should_suspend/_should_resume on a probe value *)
  Definition probe_matches (su : susp) (p : T * (bool * bool)) : bool :=
    Bool.eqb (should_suspend su (fst p)) (fst (snd p)) && Bool.eqb (should_resume su (fst p)) (snd (snd p)).

  (* the model, run on this case, produces exactly this observation:
     constructor accepted or ValueError; the conditions on every probe value; every step *)
  Definition case_ok (a : args) (ctor_ok : bool) (probes : list (T * (bool * bool)))
             (h : list op) (ss : list seen) : bool :=
    match construct a with
    | None => negb ctor_ok && match probes, ss with [], [] => true | _, _ => false end
    | Some su => ctor_ok && forallb (probe_matches su) probes
                 && steps_match su h (snd (run su init_state h)) ss
    end.

  (* boolean restatement of the property on one case (model search) *)
  Definition prop_holds (a : args) (h : list (T * env)) : bool :=
    match construct a with
    | None => negb (doc_valid a)
    | Some su =>
        doc_valid a
        && forallb (fun c => let v := fst c in
                     Bool.eqb (should_suspend su v) (doc_suspend a v)
                     && Bool.eqb (should_resume su v) (doc_resume a v)
                     && negb (should_suspend su v && should_resume su v)) h
        && Bool.eqb (st_tripped (run_values su (mkS true None false 0) h))
                    (match last_decisive su (map fst h) with Some v => doc_suspend a v | None => false end)
    end.
End Model.

Arguments ABoolHigh {T}.
Arguments ABoolLow {T}.
Arguments AFloor {T}.
Arguments ACeil {T}.
Arguments AWhenOutsideBand {T}.
Arguments AInBand {T}.
Arguments AOutBand {T}.
Arguments AWhenChanged {T}.
Arguments SBoolHigh {T}.
Arguments SBoolLow {T}.
Arguments SFloor {T}.
Arguments SCeil {T}.
Arguments SOutside {T}.
Arguments SInside {T}.
Arguments SChanged {T}.
Arguments OpInstall {T}.
Arguments OpRemove {T}.
Arguments OpValue {T}.

(* ---- the exact-rational instance used by the correspondence ------------------------ *)
(* m * 2^e: how the generated cases write numbers (every Python int/float is dyadic; long
   decimal literals are slow to read) *)
Definition Qdy (m e : Z) : Q :=
  if (0 <=? e)%Z then Qmake (m * 2 ^ e) 1 else Qmake m (Z.to_pos (2 ^ (- e))).

Definition Qltb (a b : Q) : bool := negb (Qle_bool b a).
Definition Qtruthy (a : Q) : bool := negb (Qeq_bool a 0).

Definition Qcase_ok := case_ok Q Qltb Qeq_bool Qtruthy.
Definition Qprop_holds := prop_holds Q Qltb Qeq_bool Qtruthy.
Definition Qconstruct := construct Q Qltb.
Definition Qconstruct_old := construct_old Q Qltb Qtruthy.
Definition Qshould_suspend := should_suspend Q Qltb Qeq_bool Qtruthy.
Definition Qshould_resume := should_resume Q Qltb Qeq_bool Qtruthy.
