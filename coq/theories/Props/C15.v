(* C15 - events contain exactly the readings bundled between create and save.
   [reachable E s tr]: s is the RunBundler state after ANY history of ops (any length, any interleaving of
   all 22 ops, legal or not) from a fresh bundler, tr the documents emitted so far; E is any device
   environment.  Statements are per next op from every reachable state. *)
From BV Require Import Base.Prelude Engine.Bundler Engine.BundlerSpec Engine.BundlerObs Engine.BundlerMulti Proofs.BundlerC15.
From Coq Require Import ZArith List Bool.
Import ListNotations.

(* a save of a non-empty bundle that succeeds emits exactly one event; its data is the merge of exactly the
   readings in the bundle; it references the descriptor registered for the bundle's stream, which is in the
   trace before the event and whose data keys match the event's ("STREAM:" keys aside); one seq_num is used *)
Theorem C15_save_emits_bundle :
  forall E s tr s' docs,
  reachable E s tr -> b_objs_read s <> [] -> step E s OSave = (s', docs, ROk) ->
  exists nm d pre seq u,
    b_bundling s = true /\ b_bundle_name s = Some nm /\
    docs = pre ++ [DEvent u (de_uid d) seq (merge_readings (b_read_cache s)) (filled_keys d)] /\
    no_event pre /\ In (DDescr d) (tr ++ pre) /\ de_name d = nm /\ dget (b_descriptors s') nm = Some d /\
    keys_match d (merge_readings (b_read_cache s)) /\
    dget (b_seq s') nm = Some (seq + 1)%Z /\ b_bundling s' = false.
Proof. exact save_emits_bundle. Qed.
Print Assumptions C15_save_emits_bundle.

(* what "the readings in the bundle" are: create empties the bundle ... *)
Theorem C15_create_opens_empty_bundle :
  forall E s s' docs kw args,
  step E s (OCreate kw args) = (s', docs, ROk) ->
  b_bundling s = false /\ docs = [] /\
  exists nm, create_name kw args = Some nm /\ b_bundle_name s' = Some nm /\
             b_bundling s' = true /\ b_objs_read s' = [] /\ b_read_cache s' = [] /\ b_asset_cache s' = [] /\
             b_seq s' = b_seq s.
Proof. exact create_ok. Qed.
Print Assumptions C15_create_opens_empty_bundle.

(* ... an accepted read appends exactly (object, reading); a rejected read changes nothing but caches ... *)
Theorem C15_read_appends :
  forall E s s' docs res o r a,
  b_bundling s = true -> step E s (ORead o r a) = (s', docs, res) ->
  docs = [] /\ b_seq s' = b_seq s /\ b_bundling s' = true /\ b_bundle_name s' = b_bundle_name s /\
  match res with
  | ROk => b_objs_read s' = b_objs_read s ++ [o] /\ b_read_cache s' = b_read_cache s ++ [r]
  | RErr _ => nocache s' = nocache s
  end.
Proof. exact read_in_bundle. Qed.
Print Assumptions C15_read_appends.

(* ... and no other op touches the bundle *)
Theorem C15_bundle_untouched_by_other_ops :
  forall E s o s' docs r,
  bundle_op o = false -> step E s o = (s', docs, r) ->
  b_objs_read s' = b_objs_read s /\ b_read_cache s' = b_read_cache s.
Proof. exact bundle_untouched. Qed.
Print Assumptions C15_bundle_untouched_by_other_ops.

(* the objects of a bundle have pairwise disjoint describe-keys, one reading per object *)
Theorem C15_bundle_invariant :
  forall E s tr, reachable E s tr -> bundle_inv E s.
Proof. exact bundle_inv_reachable. Qed.
Print Assumptions C15_bundle_invariant.

(* reading an object whose keys overlap an object already in the bundle raises and changes nothing *)
Theorem C15_read_collision_rejected :
  forall E s tr o r a o' s' docs res,
  reachable E s tr -> b_bundling s = true -> dv_readable (E o) = true ->
  In o' (b_objs_read s) -> disjointb (describe_keys E o') (describe_keys E o) = false ->
  step E s (ORead o r a) = (s', docs, res) ->
  res = RErr EValueError /\ docs = [] /\ nocache s' = nocache s.
Proof. exact read_collision. Qed.
Print Assumptions C15_read_collision_rejected.

(* checkpoint / configure / create inside a bundle, save / drop outside one: IllegalMessageSequence, no effect *)
Theorem C15_guards :
  forall E s,
  (b_bundling s = true ->
     step E s OCheckpoint = (clear_buffers s, [], RErr EIllegalMessageSequence) /\
     (forall o v, step E s (OConfigure o v) = (clear_buffers s, [], RErr EIllegalMessageSequence)) /\
     (forall kw args, step E s (OCreate kw args) = (clear_buffers s, [], RErr EIllegalMessageSequence))) /\
  (b_bundling s = false ->
     step E s OSave = (clear_buffers s, [], RErr EIllegalMessageSequence) /\
     step E s ODrop = (clear_buffers s, [], RErr EIllegalMessageSequence) /\
     (forall o r a, step E s (ORead o r a) = (clear_buffers s, [], ROk))).
Proof. exact guards_all. Qed.
Print Assumptions C15_guards.

(* the same guards in the RunEngine with SEVERAL runs open (ms = RunEngine._run_bundlers, run key -> bundler):
   a checkpoint - whatever run key the message carries, registered or not - is refused while ANY run has a
   bundle open, and otherwise snapshots every run; a configure is refused while the run it belongs to has a
   bundle open; every other message is handled by its own run's bundler alone *)
Theorem C15_guards_all_runs :
  forall E ms k,
  ((exists k' s', In (k', s') ms /\ b_bundling s' = true) ->
     mstep E ms (k, OCheckpoint) = (ms, [], [], RErr EIllegalMessageSequence)) /\
  ((forall k' s', In (k', s') ms -> b_bundling s' = false) ->
     mstep E ms (k, OCheckpoint) =
       (map (fun ks => (fst ks, fst (fst (step E (snd ks) OResetCheckpoint)))) ms, [], [], ROk)) /\
  (forall s o v, dget ms k = Some s -> b_bundling s = true ->
     mstep E ms (k, OConfigure o v) = (ms, [], [], RErr EIllegalMessageSequence)) /\
  (forall s o, dget ms k = Some s -> o <> OCheckpoint -> (forall ob v, o <> OConfigure ob v) ->
     mstep E ms (k, o) =
       (dset ms k (fst (fst (step E s o))), map (retag_doc k) (snd (fst (step E s o))),
        b_ledger (fst (fst (step E s o))), snd (step E s o))).
Proof. exact multi_guards. Qed.
Print Assumptions C15_guards_all_runs.

(* drop, and save with nothing read: no document, counters (and everything else) untouched, bundle closed *)
Theorem C15_drop_and_empty_save_emit_nothing :
  forall E s, b_bundling s = true ->
  step E s ODrop = (set_b_bundle_name None (set_b_bundling false (clear_buffers s)), [], ROk) /\
  (b_objs_read s = [] ->
   step E s OSave = (set_b_bundle_name None (set_b_bundling false (clear_buffers s)), [], ROk)).
Proof. exact drop_and_empty_save. Qed.
Print Assumptions C15_drop_and_empty_save_emit_nothing.

(* ---- the hypotheses are met by a concrete non-trivial run: two devices read into one bundle *)
Definition ex_devs : dict devspec :=
  [(1, mkDev true true false false false false false false false [(1, ExtNone)] []);
   (2, mkDev true false false false false false false false false [(2, ExtNone); (3, ExtOther)] []);
   (3, mkDev true false false false false false false false false [(3, ExtNone)] [])].
Definition ex_hist : list op :=
  [OOpenRun; OCreate (Some 1) []; ORead 1 [(1, 5%Z)] []; ORead 2 [(2, 6%Z); (3, 7%Z)] []].
Example C15_save_nonvacuous :
  exists E s tr s' docs, reachable E s tr /\ b_objs_read s <> [] /\ step E s OSave = (s', docs, ROk) /\
                         length docs = 2.
Proof.
  exists (env_of ex_devs), (final (env_of ex_devs) (init false false) ex_hist),
         (trace (env_of ex_devs) (init false false) ex_hist).
  eexists. eexists. split; [exists false, false, ex_hist; split; reflexivity|].
  split; [vm_compute; discriminate|]. split; vm_compute; reflexivity.
Qed.
Example C15_collision_nonvacuous :
  exists E s tr, reachable E s tr /\ b_bundling s = true /\ dv_readable (E 3) = true /\
                 In 2 (b_objs_read s) /\ disjointb (describe_keys E 2) (describe_keys E 3) = false.
Proof.
  exists (env_of ex_devs), (final (env_of ex_devs) (init false false) ex_hist),
         (trace (env_of ex_devs) (init false false) ex_hist).
  split; [exists false, false, ex_hist; split; reflexivity|].
  vm_compute. repeat split; auto.
Qed.
