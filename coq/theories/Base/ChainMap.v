(* Dictionaries as association lists keyed by interned strings (N), and
   collections.ChainMap as an ordered list of such dictionaries: a lookup returns the
   value of the FIRST map that has the key.  Model only; lemmas are in Proofs/ChainMap.v.

   A Python dict never holds a key twice; an association list may.  [lookup] returns the
   first binding, [set] overwrites in place (keeping the position, like dict assignment)
   and appends a new key at the end (insertion order). *)
From BV Require Import Base.Prelude.

Section Assoc.
  Context {V : Type}.

  Definition dict := list (N * V).

  Fixpoint lookup (k : N) (d : dict) : option V :=
    match d with
    | [] => None
    | (k', v) :: d' => if N.eqb k k' then Some v else lookup k d'
    end.

  Definition has (k : N) (d : dict) : bool :=
    match lookup k d with Some _ => true | None => false end.

  Definition keys (d : dict) : list N := map fst d.

  (* d[k] = v *)
  Fixpoint set (k : N) (v : V) (d : dict) : dict :=
    match d with
    | [] => [(k, v)]
    | (k', v') :: d' => if N.eqb k k' then (k, v) :: d' else (k', v') :: set k v d'
    end.

  (* del d[k] / d.pop(k, None) *)
  Fixpoint remove (k : N) (d : dict) : dict :=
    match d with
    | [] => []
    | (k', v') :: d' => if N.eqb k k' then remove k d' else (k', v') :: remove k d'
    end.

  (* ChainMap(m1, m2, ...)[k] *)
  Fixpoint chain_lookup (k : N) (maps : list dict) : option V :=
    match maps with
    | [] => None
    | m :: ms => match lookup k m with Some v => Some v | None => chain_lookup k ms end
    end.

  Fixpoint mem (k : N) (l : list N) : bool :=
    match l with [] => false | x :: l' => N.eqb k x || mem k l' end.

  Fixpoint dedup (l : list N) : list N :=
    match l with
    | [] => []
    | x :: l' => if mem x l' then dedup l' else x :: dedup l'
    end.

  (* dict(ChainMap(m1, m2, ...)): one binding per key, the first map that has it wins.
     (Key order is not modelled; documents are compared as maps.) *)
  Definition chain_merge (maps : list dict) : dict :=
    flat_map (fun k => match chain_lookup k maps with Some v => [(k, v)] | None => [] end)
             (dedup (flat_map keys maps)).

  (* equality of two dictionaries as maps *)
  Definition dict_beq (veq : V -> V -> bool) (a b : dict) : bool :=
    forallb (fun k => option_beq veq (lookup k a) (lookup k b)) (keys a ++ keys b).
End Assoc.

Arguments dict : clear implicits.
