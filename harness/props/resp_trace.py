"""Trace monitors shared by C12 and C13 (implementation side).

They restate the properties on the logged observation of a REAL run (harness/drivers/engine_driver.py)
and mirror the Coq monitors of coq/theories/Proofs/RE_Resp.v / RE_Status.v:

  * responses: every input the engine gives to a plan (the plan passed to RE(...) and suspender
    pre/post plans) is explained by the response recorded for the message that plan yielded last;
  * status failures: after a status object failed, no further message is processed before the
    failure has been thrown into a plan (or the task ended);
  * uids: RE(...)/resume() return the uids of the runs opened since the call started, in order.
"""

# exceptions the engine injects from outside the plan's own message (the `_exception` slot,
# a cancellation turned into a request exception, a failed pause)
EXT = ("FailedStatus", "RequestAbort", "RequestStop", "PlanHalt", "FailedPause", "CancelledError")
# commands whose completed response is None anyway: a cancelled one is indistinguishable for the plan
NONE_IS_RIGHT = ("sleep", "checkpoint")


def merge(obs):
    """Interleave the schedule (events) with the observations: [(event, [observations emitted by it])].
    Each task step ends with a ["task", where] observation, each request coroutine with ["req", ok],
    each main-thread action starts with ["main", a] and ends with ["out", ...]; status completions,
    releases and permits emit nothing."""
    o = obs["obs"]
    pos = 0
    out = []

    def take_until(pred):
        nonlocal pos
        got = []
        while pos < len(o):
            x = o[pos]
            pos += 1
            got.append(x)
            if pred(x):
                return got
        return got

    for e in obs["sched"]:
        k = e[0]
        if k == "task":
            out.append((e, take_until(lambda x: x[0] == "task")))
        elif k == "req_done":
            out.append((e, take_until(lambda x: x[0] == "req")))
        elif k == "main":
            out.append((e, take_until(lambda x: x[0] == "main")))
        elif k == "main_done":
            out.append((e, take_until(lambda x: x[0] == "out")))
        else:
            out.append((e, []))
    if pos < len(o):
        out.append((["rest"], o[pos:]))
    return out


class PlanState:
    __slots__ = ("n", "st", "msg", "resp", "seen", "other", "flags", "bad")

    def __init__(self):
        self.n = 0            # resumptions so far (index into the tape)
        self.st = "none"      # none | await | canc | got | dead   (pst of Engine/RespMon.v; SIn is resolved from the tape)
        self.msg = None       # id of the message yielded last
        self.resp = None      # its recorded response
        self.seen = []        # exceptions of frames above since the last resumption
        self.other = False    # another plan was resumed since the last resumption
        self.flags = set()    # reported deviations: "a" = a cancelled command leaves None as its response
        self.bad = []         # inputs that nothing explains


def is_exn(v):
    return isinstance(v, list) and len(v) == 2 and v[0] == "exn"


def cmd_of(obs, mid):
    msgs = obs.get("msgs", [])
    if mid is not None and 0 <= mid < len(msgs):
        return msgs[mid]["cmd"]
    return "?"


def describe(obs, ps):
    if ps.st == "none":
        return "start"
    return "%s(%s, response %r)" % (ps.st, cmd_of(obs, ps.msg), ps.resp)


def allowed_exn(ps, e):
    return e in EXT or e in ps.seen or ps.other


def explain(obs, ps, inp):
    """(ok, flag, text): mirror of RespMon.input_ok."""
    kind = inp[0]
    if ps.st == "none":
        return (inp == ["send", None], None, "a plan is started with send(None)")
    if ps.st == "dead":
        return (False, None, "a finished plan was resumed")
    if kind == "close":
        return (True, None, "")
    if ps.st == "got":
        if is_exn(ps.resp):
            if kind == "send":
                return (False, None, "the response was an exception but a value was sent")
            return (ps.resp[1] == inp[1] or allowed_exn(ps, inp[1]), None,
                    "the exception is neither the response to the plan's message, nor injected by the engine, nor raised by a frame above")
        if kind == "send":
            return (inp[1] == ps.resp, None, "expected the recorded response %r" % (ps.resp,))
        return (allowed_exn(ps, inp[1]), None, "the exception is neither injected by the engine nor raised by a frame above")
    # await / canc: the command never produced a response
    if kind == "send":
        if inp[1] is not None:
            return (False, None, "the command produced no response, yet %r was sent" % (inp[1],))
        if cmd_of(obs, ps.msg) in NONE_IS_RIGHT:
            return (True, None, "")
        return (True, "a", "the %s command was cancelled by a pause/suspension; the plan receives None instead of the command's response"
                % cmd_of(obs, ps.msg))
    return (allowed_exn(ps, inp[1]), None, "the exception is neither injected by the engine nor raised by a frame above")


def monitor_responses(obs, skip=None):
    """-> {pid: PlanState}: the response discipline of every plan of the run (mirror of RespMon.chk, for all plans)."""
    plans = {}
    tapes = obs.get("tapes", {})
    state = "idle"
    cur = None        # pid whose message is being processed
    just = None       # (pid, mid): the plan that has just yielded message mid
    ncall = 0
    for ev, os_ in merge(obs):
        k = ev[0]
        # ---- events (RespMon.mon_ev)
        if k == "main" and ev[1] == "call":
            if state == "idle":
                for q, ps in plans.items():
                    if ps.st != "none":
                        ps.st = "dead"
                plans[ncall] = PlanState()
            ncall += 1
        # ---- observations (RespMon.mon_obs)
        for x in os_:
            kk = x[0]
            if kk == "main" or kk == "result" or (kk == "plan_in" and (x[1] >= 2000 or (skip is not None and skip(x[1])))):
                continue          # inner tapes of wrapped plans (check_wrapped) and RunEngineResult records (check_results)
            if just is not None and kk != "msg":
                plans[just[0]].bad.append("yielded message %r but the engine did not process it next" % (just[1],))
                plans[just[0]].st = "dead"
                just = None
            if kk == "state":
                state = x[2]
            elif kk == "plan_in":
                pid, inp = x[1], x[2]
                ps = plans.setdefault(pid, PlanState())
                for q, other in plans.items():
                    if q != pid:
                        other.other = True
                tape = tapes.get(str(pid), [])
                ent = tape[ps.n] if ps.n < len(tape) else None
                ps.n += 1
                ok, fl, text = explain(obs, ps, inp)
                if not ok:
                    ps.bad.append("input #%d %r after %s: %s" % (ps.n, inp, describe(obs, ps), text))
                elif fl:
                    ps.flags.add(fl)
                if cur == pid:
                    cur = None
                ps.seen, ps.other = [], False
                if ent is not None and ent[1][0] == "yield":
                    ps.st, ps.msg, ps.resp = "in", ent[1][1], None
                    just = (pid, ent[1][1])
                else:
                    if ent is None:
                        ps.bad.append("resumed more often than its tape records")
                    ps.st = "dead"
            elif kk == "msg":
                mid, unknown = x[1], x[2]["cmd"].startswith("unknown")
                own = None
                if just is not None:
                    if just[1] == mid:
                        own = just[0]
                    else:
                        plans[just[0]].bad.append("yielded message %r but the engine processed %r next" % (just[1], mid))
                        plans[just[0]].st = "dead"
                just = None
                cur = own
                for q, ps in plans.items():
                    if q == own:
                        if unknown:
                            ps.st, ps.resp = "got", ["exn", "InvalidCommand"]
                        else:
                            ps.st = "await"
                    else:
                        if ps.st == "await":
                            ps.st = "canc"
                        if unknown:
                            ps.seen.append("InvalidCommand")
            elif kk == "resp":
                if cur is not None and plans[cur].st == "await":
                    plans[cur].st, plans[cur].resp = "got", x[1]
                    for q, ps in plans.items():
                        if q != cur and is_exn(x[1]):
                            ps.seen.append(x[1][1])
                    cur = None
                elif is_exn(x[1]):
                    for ps in plans.values():
                        ps.seen.append(x[1][1])
    return plans


def check_responses(obs, skip=None):
    """-> list of (kind, message): kind 'a' = reported deviation class, 'bad' = unexplained input.
    skip(pid): plans that do not talk to the engine directly (they sit under engine-level preprocessors)."""
    out = []
    for pid, ps in sorted(monitor_responses(obs, skip).items()):
        for b in ps.bad:
            out.append(("bad", "plan %d: %s" % (pid, b)))
        for f in sorted(ps.flags):
            out.append((f, "plan %d: deviation class %s" % (pid, f)))
    return out


def coq_agree_args(obs, pid=0):
    """(accepted, a) of plan pid, the arguments of RespMon.resp_agree."""
    ps = monitor_responses(obs).get(pid)
    if ps is None:
        return (True, False)
    return (not ps.bad, "a" in ps.flags)


def check_status_failures(obs):
    """C12 (ii): after a failed status (not pardoned), no message is processed before a plan was thrown
    an exception or the task ended."""
    bad = []
    armed = None
    alive = set()       # statuses handed out by the task that is still running (or paused): their failures may not be pardoned.
    #                     The engine's own `pardon` flag is not taken on trust: it is legitimate only once `_run` has reached its
    #                     finally block (no message is processed after that, so such a failure is disarmed by the end of the task).
    for ev, os_ in merge(obs):
        if ev[0] == "status_done" and not ev[2] and (not ev[3] or ev[1] in alive):
            armed = ev[1]
        if ev[0] == "main" and ev[1] == "call":
            armed = None
        for x in os_:
            if x[0] == "resp" and isinstance(x[1], list) and len(x[1]) == 2 and x[1][0] == "status":
                alive.add(x[1][1])
            if x[0] == "plan_in" and x[2][0] == "throw":
                armed = None
            elif x[0] == "task" and (x[1] == "return" or str(x[1]).startswith("raise")):
                armed = None
                alive.clear()
            elif x[0] == "msg" and armed is not None:
                bad.append(("late-failure", "status %d failed but message %r was processed before the failure reached a plan" % (armed, x[2])))
                armed = None
    return bad


def check_uids(obs):
    """RE(...)/resume() return the uids of the runs opened since the call started, in order."""
    bad = []
    opened = []
    for x in obs["obs"]:
        if x[0] == "main" and x[1] == "call":
            opened = []
        elif x[0] == "doc" and x[1] == "start":
            opened.append(["uid", x[2]])
        elif x[0] == "out" and x[2] == "return":
            v = x[3]
            got = v[1] if isinstance(v, list) and v and v[0] in ("list", "devs") else v     # () is canonicalised as ["devs", []]
            if x[1] in ("call", "resume"):
                if got != opened:
                    bad.append(("uids", "%s() returned %r but the runs opened during the call are %r" % (x[1], got, opened)))
            elif got != opened[:len(got)]:
                bad.append(("uids", "%s() returned %r, not a prefix of the runs opened %r" % (x[1], got, opened)))
    return bad


# ----------------------------------------------------------------------------- C12 extras

NOT_ORDINARY = ("RequestStop", "RequestAbort", "FailedPause", "PlanHalt", "CancelledError", "GeneratorExit")
DEV_CMDS = ("read", "set", "trigger", "stage", "unstage", "stop")


def check_fault_responses(obs):
    """C12 (i), first half: a device method that raises while the command of a message is calling it makes that
    command answer the message with that exception."""
    bad = []
    results = list(obs.get("devcalls", []))
    k = 0
    cur = None          # (cmd, obj) of the message being processed
    pending = None      # exception kind the current command must answer with
    for x in obs["obs"]:
        if x[0] == "msg":
            if pending is not None:
                bad.append(("fault-lost", "device raised %s inside %r but the command did not answer with it" % (pending, cur)))
            cur, pending = (x[2]["cmd"], x[2]["obj"]), None
        elif x[0] == "dev":
            res = results[k][2] if k < len(results) else None
            k += 1
            if res and res[0] == "raise" and cur is not None and cur[0] == x[2] and cur[1] == x[1] and cur[0] in DEV_CMDS:
                pending = res[1]
        elif x[0] == "resp" and pending is not None:
            if not (is_exn(x[1]) and x[1][1] == pending):
                bad.append(("fault-lost", "device raised %s inside %r but the response is %r" % (pending, cur, x[1])))
            pending = None
        elif x[0] == "task" and pending is not None and str(x[1]).startswith("future"):
            pending = None
    return bad


def check_unhandled(obs):
    """C12 (iii): an ordinary exception that leaves the plan given to RE(...) ends the blocking call with it."""
    bad = []
    tapes = obs.get("tapes", {})
    count = {}
    expect = None
    for x in obs["obs"]:
        if x[0] == "plan_in" and x[1] < 1000:
            n = count.get(x[1], 0)
            count[x[1]] = n + 1
            tape = tapes.get(str(x[1]), [])
            if n < len(tape) and tape[n][1][0] == "raise" and tape[n][1][1] not in NOT_ORDINARY:
                expect = tape[n][1][1]
        elif x[0] == "out" and expect is not None:
            if not (x[2] == "raise" and x[3] == expect):
                bad.append(("swallowed", "the plan raised %s but %s() ended with %r" % (expect, x[1], x[2:4])))
            expect = None
    return bad


def coq_and(terms):
    """right-nested andb of Coq bool terms"""
    terms = list(terms)
    if not terms:
        return "true"
    out = "(%s)" % terms[-1]
    for x in reversed(terms[:-1]):
        out = "(andb (%s) %s)" % (x, out)
    return out


# ----------------------------------------------------------------------------- plans under real preprocessors (C13)

def check_wrapped(obs, inner=None):
    """The plan itself (inner tape, plan id 2000 + call index) sits under real preprocessors: the value it receives at
    each yield is the ENGINE's response to the message it yielded there - None when the preprocessor deleted the message."""
    bad = []
    tapes = obs.get("tapes", {})
    pend = {}        # pid -> {"mid", "seen", "resp", "has"}
    count = {}
    cur = []
    if inner is None:
        inner = lambda pid: pid >= 2000      # noqa: E731
    for x in obs["obs"]:
        k = x[0]
        if k == "plan_in" and inner(x[1]):
            pid, inp = x[1], x[2]
            n = count.get(pid, 0)
            count[pid] = n + 1
            tape = tapes.get(str(pid), [])
            st = pend.get(pid)
            if st is None:
                if n == 0 and inp != ["send", None] and inp[0] == "send":
                    bad.append(("wrapped", "plan %d was started with %r" % (pid, inp)))
            elif inp[0] == "send":
                if not st["seen"]:
                    if inp[1] is not None:
                        bad.append(("wrapped", "plan %d: message %r (%s) was deleted by the preprocessor, yet its yield received %r"
                                    % (pid, st["mid"], cmd_of(obs, st["mid"]), inp[1])))
                elif st["has"]:
                    if is_exn(st["resp"]):
                        bad.append(("wrapped", "plan %d: the engine answered %s with %r but the plan was sent %r"
                                    % (pid, cmd_of(obs, st["mid"]), st["resp"], inp[1])))
                    elif inp[1] != st["resp"]:
                        bad.append(("wrapped", "plan %d: the engine answered %s with %r but the yield received %r"
                                    % (pid, cmd_of(obs, st["mid"]), st["resp"], inp[1])))
                elif inp[1] is not None:
                    bad.append(("wrapped", "plan %d: %s produced no response, yet the yield received %r" % (pid, cmd_of(obs, st["mid"]), inp[1])))
            elif inp[0] == "throw":
                e = inp[1]
                own = st["seen"] and st["has"] and is_exn(st["resp"]) and st["resp"][1] == e
                if not (own or e in EXT or e == "InvalidCommand"):
                    bad.append(("wrapped", "plan %d was thrown %s, which is neither the engine's response to %s nor an engine exception"
                                % (pid, e, cmd_of(obs, st["mid"]))))
            ent = tape[n] if n < len(tape) else None
            if ent is not None and ent[1][0] == "yield":
                pend[pid] = {"mid": ent[1][1], "seen": False, "resp": None, "has": False}
            else:
                pend.pop(pid, None)
        elif k == "msg":
            # only the first processing after the yield counts: a rewind replays the message, its new response is dropped
            cur = [pid for pid, st in pend.items() if st["mid"] == x[1] and x[1] is not None and not st["seen"]]
            for pid in cur:
                pend[pid]["seen"] = True
        elif k == "resp":
            for pid in cur:
                if pid in pend:
                    pend[pid]["resp"], pend[pid]["has"] = x[1], True
            cur = []
    return bad


def check_results(obs):
    """RunEngine(call_returns_result=True): plan_result is the plan's own return value, run_start_uids are the runs
    opened during the call, exit_status is 'success' when the plan ran to completion."""
    bad = []
    tapes = obs.get("tapes", {})
    ncall = -1
    opened = []
    for x in obs["obs"]:
        if x[0] == "main" and x[1] == "call":
            ncall += 1
            opened = []
        elif x[0] == "doc" and x[1] == "start":
            opened.append(["uid", x[2]])
        elif x[0] == "result":
            _, action, plan_result, exit_status, uids, interrupted = x
            if action in ("call", "resume"):
                if uids != opened:
                    bad.append(("result", "%s(): run_start_uids %r, runs opened %r" % (action, uids, opened)))
                tape = tapes.get(str(2000 + ncall)) or tapes.get(str(ncall)) or []
                last = tape[-1][1] if tape else None
                if last is not None and last[0] == "ret":
                    if plan_result != last[1]:
                        bad.append(("result", "%s(): the plan returned %r but plan_result is %r" % (action, last[1], plan_result)))
                    if exit_status != "success":
                        bad.append(("result", "%s(): the plan ran to completion but exit_status is %r" % (action, exit_status)))
                    if interrupted and not any(e[0] == "req_done" and e[1] in ("abort", "stop", "halt", "pause", "suspend") for e in obs["sched"]):
                        bad.append(("result", "%s(): interrupted is set although nothing interrupted the plan" % action))
    return bad
