(* Proofs about Engine/WaitGroup.v: every trace of the model, for every list of events, is accepted by the
   monitors of Engine/WaitGroupSpec.v; frame lemmas (what a step does not change); the result of a wait. *)
From Coq Require Import List Bool Arith Lia.
From BV Require Import Engine.WaitGroup Engine.WaitGroupSpec.
Import ListNotations.

(* ---------------------------------------------------------------- status table *)
Lemma sget_sset_same t i v x : sget t i = Some x -> sget (sset t i v) i = Some v.
Proof.
  unfold sget. revert i; induction t as [|a t IH]; intros [|i] H; cbn in *; try discriminate; auto.
Qed.
Lemma sget_sset_other t i j v : i <> j -> sget (sset t i v) j = sget t j.
Proof.
  unfold sget. revert i j; induction t as [|a t IH]; intros [|i] [|j] H; cbn; auto; try congruence.
Qed.
Lemma sget_app_pend t j : sget (t ++ [SPend]) j = sget t j \/ (sget t j = None /\ sget (t ++ [SPend]) j = Some SPend)
                          \/ (sget t j = None /\ sget (t ++ [SPend]) j = None).
Proof.
  unfold sget. destruct (Nat.lt_ge_cases j (length t)) as [L|L].
  - left. apply nth_error_app1; assumption.
  - right. assert (N : nth_error t j = None) by (apply nth_error_None; assumption).
    rewrite nth_error_app2 by assumption. destruct (j - length t) as [|[|k]]; cbn; auto.
Qed.

Lemma resolved_sset_done t sid ok x j :
  sget t sid = Some x -> resolved (sset t sid (SDone ok)) j = Nat.eqb sid j || resolved t j.
Proof.
  intros H. unfold resolved. destruct (Nat.eqb_spec sid j) as [->|N].
  - rewrite (sget_sset_same _ _ _ _ H). reflexivity.
  - rewrite sget_sset_other by assumption. reflexivity.
Qed.
Lemma resolved_sset_fin t sid ok j :
  sget t sid = Some SPend -> resolved (sset t sid (SFin ok)) j = resolved t j.
Proof.
  intros H. unfold resolved. destruct (Nat.eqb_spec sid j) as [->|N].
  - rewrite (sget_sset_same _ _ _ _ H), H. reflexivity.
  - rewrite sget_sset_other by assumption. reflexivity.
Qed.
Lemma resolved_app t j : resolved (t ++ [SPend]) j = resolved t j.
Proof.
  unfold resolved. destruct (sget_app_pend t j) as [E|[[E1 E2]|[E1 E2]]]; rewrite ?E, ?E1, ?E2; reflexivity.
Qed.

(* ---------------------------------------------------------------- groups *)
Lemma lookup_remove_same g gs : lookup g (remove g gs) = [].
Proof.
  induction gs as [|[k l] r IH]; cbn; auto. destruct (Nat.eqb_spec k g); cbn; auto.
  destruct (Nat.eqb_spec k g); [contradiction|auto].
Qed.
Lemma lookup_remove_other g g' gs : g <> g' -> lookup g' (remove g gs) = lookup g' gs.
Proof.
  intros N. induction gs as [|[k l] r IH]; cbn; auto. destruct (Nat.eqb_spec k g) as [->|K]; cbn.
  - destruct (Nat.eqb_spec g g'); [contradiction|auto].
  - destruct (Nat.eqb_spec k g'); auto.
Qed.
Lemma lookup_put_same g l gs : lookup g (put g l gs) = l.
Proof. unfold put; cbn. rewrite Nat.eqb_refl. reflexivity. Qed.
Lemma lookup_put_other g g' l gs : g <> g' -> lookup g' (put g l gs) = lookup g' gs.
Proof.
  intros N. unfold put; cbn. destruct (Nat.eqb_spec g g'); [contradiction|]. apply lookup_remove_other; assumption.
Qed.

Lemma mem_In x l : mem x l = true <-> In x l.
Proof.
  induction l as [|y r IH]; cbn; [split; [discriminate|tauto]|].
  rewrite orb_true_iff, IH. split; intros [H|H]; auto.
  - left. apply Nat.eqb_eq; assumption.
  - left. apply Nat.eqb_eq; assumption.
Qed.

(* ---------------------------------------------------------------- running *)
Lemma run_tr_cons s e r :
  run_tr s (e :: r) = (fst (run_tr (fst (step s e)) r), (e, snd (step s e)) :: snd (run_tr (fst (step s e)) r)).
Proof. cbn. destruct (step s e) as [s1 o]. cbn. destruct (run_tr s1 r). reflexivity. Qed.

Ltac break_match :=
  match goal with
  | |- context [match ?x with _ => _ end] => destruct x eqn:?
  | H : context [match ?x with _ => _ end] |- _ => destruct x eqn:?
  end.

(* ================================================================ (a) failures reach the plan *)
Record FI (s : st) (m : fst_) : Prop := mkFI {
  fi_slot : slot s = option_map XFailed (m_pend m);
  fi_rsp : forall x, rsp s <> Some (RExn (XFailed x));
  fi_fin : forall sid ok, sget (stat s) sid = Some (SFin ok) -> flook sid (m_fin m) = Some ok;
  fi_comp : forall sid, mem sid (m_comp m) = resolved (stat s) sid;
  fi_prev : forall x, mem x (m_prev m) = true -> mem x (m_comp m) = true;
  fi_pend : forall x, m_pend m = Some x -> mem x (m_prev m) = false }.

Lemma FI_init : FI init f0.
Proof.
  constructor; cbn; auto; try discriminate.
  - intros sid ok H. unfold sget in H. destruct sid; discriminate.
  - intros sid. unfold resolved, sget. destruct sid; reflexivity.
Qed.

Lemma delivery_fail_ok s m i : FI s m -> delivery s = Some i -> fail_ok m i = true.
Proof.
  intros [Hs Hr _ _ _ Hp] D. unfold delivery in D. unfold fail_ok.
  destruct (m_pend m) as [x|] eqn:P; cbn in Hs; rewrite Hs in D.
  - inversion D; subst. cbn. rewrite Nat.eqb_refl. rewrite (Hp x eq_refl). reflexivity.
  - destruct (rsp s) as [[v|e]|] eqn:R; inversion D; subst; cbn; auto.
    destruct e; auto. exfalso. exact (Hr sid eq_refl).
Qed.

Lemma process_stat_resolved s m j : resolved (stat (process s m)) j = resolved (stat s) j.
Proof.
  destruct m as [g|g tmo eot watch|]; cbn; auto.
  - apply resolved_app.
  - destruct (lookup g (groups s)); reflexivity.
Qed.
Lemma process_stat_fin s m sid ok : sget (stat (process s m)) sid = Some (SFin ok) -> sget (stat s) sid = Some (SFin ok).
Proof.
  destruct m as [g|g tmo eot watch|]; cbn; auto.
  - intros H. destruct (sget_app_pend (stat s) sid) as [E|[[E1 E2]|[E1 E2]]]; congruence.
  - destruct (lookup g (groups s)); auto.
Qed.
Lemma process_slot s m : slot (process s m) = None.
Proof. destruct m as [g|g tmo eot watch|]; cbn; auto. destruct (lookup g (groups s)); reflexivity. Qed.
Lemma process_rsp s m x : rsp (process s m) <> Some (RExn x).
Proof. destruct m as [g|g tmo eot watch|]; cbn; try discriminate. destruct (lookup g (groups s)); discriminate. Qed.

Lemma FI_step s m e : FI s m -> exists m', fail_step m (e, snd (step s e)) = Some m' /\ FI (fst (step s e)) m'.
Proof.
  intros I. unfold step. destruct (ended s) eqn:En; [exists m; split; [reflexivity|exact I]|].
  assert (SK : exists m', fail_step m (e, snd (skip s)) = Some m' /\ FI (fst (skip s)) m').
  { exists m. split; [destruct e; reflexivity|exact I]. }
  destruct I as [Hs Hr Hf Hc Hp Hq].
  destruct e as [ms| |sid ok|sid| | | | | ].
  - (* EMsg *)
    destruct (blk s) eqn:B; [exact SK|]. destruct (delivery s) as [i|] eqn:D; [|exact SK].
    cbn [fst snd]. unfold fail_step. cbn [is_skip].
    rewrite (delivery_fail_ok s m i (mkFI _ _ Hs Hr Hf Hc Hp Hq) D).
    eexists; split; [reflexivity|]. constructor; cbn.
    + apply process_slot.
    + intros x. apply process_rsp.
    + intros sid ok H. apply Hf. eapply process_stat_fin; eassumption.
    + intros sid. rewrite process_stat_resolved. apply Hc.
    + auto.
    + discriminate.
  - (* EEnd *)
    destruct (blk s) eqn:B; [exact SK|]. destruct (delivery s) as [i|] eqn:D; [|exact SK].
    cbn [fst snd]. unfold fail_step. cbn [is_skip].
    rewrite (delivery_fail_ok s m i (mkFI _ _ Hs Hr Hf Hc Hp Hq) D).
    eexists; split; [reflexivity|]. constructor; cbn; auto; discriminate.
  - (* EFinish *)
    destruct (sget (stat s) sid) as [[|?|?]|] eqn:G; try exact SK.
    cbn [fst snd]. eexists; split; [reflexivity|]. constructor; cbn; auto.
    + intros j okj H. destruct (Nat.eqb_spec sid j) as [->|N].
      * rewrite (sget_sset_same _ _ _ _ G) in H. congruence.
      * rewrite sget_sset_other in H by assumption. auto.
    + intros j. rewrite resolved_sset_fin by assumption. apply Hc.
  - (* EDone *)
    destruct (sget (stat s) sid) as [[|ok|?]|] eqn:G; try exact SK.
    cbn [fst snd]. eexists; split; [reflexivity|].
    assert (NR : mem sid (m_comp m) = false).
    { rewrite Hc. unfold resolved. rewrite G. reflexivity. }
    assert (NP : mem sid (m_prev m) = false).
    { destruct (mem sid (m_prev m)) eqn:E; auto. rewrite (Hp _ E) in NR. discriminate. }
    rewrite (Hf _ _ G).
    constructor; cbn.
    + destruct ok; cbn; auto.
    + destruct (blk s); cbn; auto.
    + intros j okj H. destruct (Nat.eqb_spec sid j) as [->|N].
      * rewrite (sget_sset_same _ _ _ _ G) in H. congruence.
      * rewrite sget_sset_other in H by assumption. auto.
    + intros j. rewrite (resolved_sset_done _ _ _ _ _ G). rewrite Hc. reflexivity.
    + intros x H. rewrite (Hp _ H). apply orb_true_r.
    + destruct ok; auto. intros x H. inversion H; subst. exact NP.
  - (* ETimeout *)
    destruct (blk s) as [w|] eqn:B; [|exact SK]. destruct (w_tmo w); [|exact SK]. destruct (w_sp w); [|exact SK].
    cbn [fst snd]. eexists; split; [reflexivity|]. constructor; cbn; auto.
  - (* EWakeS *)
    destruct (blk s) as [w|] eqn:B; [|exact SK]. destruct (w_sp w) as [[|]|]; try exact SK.
    cbn [fst snd]. eexists; split; [reflexivity|]. constructor; cbn; auto.
  - (* EResume *)
    destruct (blk s) as [w|] eqn:B; [|exact SK]. destruct (w_sp w) as [|[|]]; try exact SK.
    + cbn [fst snd]. eexists; split; [reflexivity|]. constructor; cbn; auto.
      intros x. destruct (w_eot w); discriminate.
    + cbn [fst snd]. eexists; split; [reflexivity|]. constructor; cbn; auto. discriminate.
  - (* EWakeW *)
    destruct (blk s) as [w|] eqn:B; [|exact SK]. destruct (w_wp w) as [|[|]| |]; try exact SK.
    cbn [fst snd]. eexists; split; [reflexivity|]. constructor; cbn; auto.
  - (* ECancelCb *)
    destruct (blk s) as [w|] eqn:B; [|exact SK]. destruct (w_wp w) as [|?| |]; try exact SK.
    destruct (w_sp w); try exact SK.
    cbn [fst snd]. eexists; split; [reflexivity|]. constructor; cbn; auto. discriminate.
Qed.

Lemma FI_run evs : forall s m, FI s m -> exists m', fail_run m (snd (run_tr s evs)) = Some m' /\ FI (fst (run_tr s evs)) m'.
Proof.
  induction evs as [|e r IH]; intros s m I.
  - exists m. split; [reflexivity|exact I].
  - rewrite run_tr_cons. cbn [fst snd fail_run].
    destruct (FI_step s m e I) as [m1 [E I1]]. rewrite E. apply IH. exact I1.
Qed.

Theorem failures_reach_plan : forall evs : list event, mon_fail (snd (run_tr init evs)) = true.
Proof.
  intros evs. unfold mon_fail. destruct (FI_run evs init f0 FI_init) as [m' [E _]]. rewrite E. reflexivity.
Qed.

(* ================================================================ (b) what the answer True of a wait means *)
Local Arguments put : simpl never.
Local Arguments remove : simpl never.

Lemma sset_length t i v : length (sset t i v) = length t.
Proof. revert i; induction t as [|a t IH]; intros [|i]; cbn; auto. Qed.

Lemma objdone_sset_other t i j v : i <> j -> objdone (sset t i v) j = objdone t j.
Proof. intros N. unfold objdone. rewrite sget_sset_other by assumption. reflexivity. Qed.
Lemma objdone_app t j : objdone (t ++ [SPend]) j = objdone t j.
Proof.
  unfold objdone. destruct (sget_app_pend t j) as [E|[[E1 E2]|[E1 E2]]]; rewrite ?E, ?E1, ?E2; reflexivity.
Qed.

Definition wprop (m : gst) (g : nat) (eot : bool) : Prop :=
  forall sid, In (sid, g) (g_grp m) ->
    mem sid (g_comp m) = true \/ (eot = false /\ is_some (flook sid (g_fin m)) = true) \/ mem g (g_lost m) = true.

Lemma members_In g grp x : In x (members g grp) -> In (x, g) grp.
Proof.
  unfold members. rewrite in_map_iff. intros [[a b] [E H]]. cbn in E; subst.
  apply filter_In in H. destruct H as [H1 H2]. cbn in H2. apply Nat.eqb_eq in H2. subst. exact H1.
Qed.

Lemma wait_ok_intro m i :
  (forall g t eot wa, g_last m = Some (MWait g t eot wa) -> i = IVal (VBool true) -> wprop m g eot) ->
  wait_ok false m i = true.
Proof.
  intros H. unfold wait_ok. destruct i as [[|[|]]|]; auto. destruct (g_last m) as [[g|g t eot wa|]|]; auto.
  specialize (H g t eot wa eq_refl eq_refl). cbn.
  destruct (mem g (g_lost m)) eqn:L; cbn; auto.
  apply forallb_forall. intros x Hx. apply members_In in Hx.
  destruct (H x Hx) as [A|[[A B]|A]].
  - rewrite A. reflexivity.
  - subst. rewrite B. apply orb_true_r.
  - congruence.
Qed.

Definition same_wait (w w' : wt) : Prop :=
  w_g w' = w_g w /\ w_futs w' = w_futs w /\ w_tmo w' = w_tmo w /\ w_eot w' = w_eot w /\
  (forall b, w_sp w' = SFinished b -> w_sp w = SFinished b).

Lemma rerelease_same t w : same_wait w (rerelease t w).
Proof.
  unfold rerelease, same_wait. destruct w as [g futs tmo eot sp wf wp]; cbn.
  destruct sp as [[|]|b]; destruct wp as [|[|]| |]; cbn; repeat split; auto; intros; discriminate.
Qed.

Record GI (s : st) (m : gst) : Prop := mkGI {
  gi_n : g_n m = length (stat s);
  gi_comp : forall sid, mem sid (g_comp m) = resolved (stat s) sid;
  gi_fin : forall sid, objdone (stat s) sid = true -> is_some (flook sid (g_fin m)) = true;
  gi_grp : forall sid g, In (sid, g) (g_grp m) ->
             resolved (stat s) sid = true \/ In sid (lookup g (groups s))
             \/ (exists w, blk s = Some w /\ w_g w = g /\ In sid (w_futs w)) \/ mem g (g_lost m) = true;
  gi_blk : forall w, blk s = Some w ->
             (exists wa, g_last m = Some (MWait (w_g w) (w_tmo w) (w_eot w) wa)) /\ lookup (w_g w) (groups s) = []
             /\ (w_sp w = SFinished false -> forallb (resolved (stat s)) (w_futs w) = true);
  gi_true : blk s = None -> forall g t eot wa, g_last m = Some (MWait g t eot wa) ->
             rsp s = Some (RVal (VBool true)) -> wprop m g eot }.

Lemma GI_init : GI init g0.
Proof.
  constructor; cbn; auto; try discriminate; try contradiction.
  - intros sid. unfold resolved, sget. destruct sid; reflexivity.
  - intros sid. unfold objdone, sget. destruct sid; discriminate.
Qed.

Lemma delivery_true s : delivery s = Some (IVal (VBool true)) -> rsp s = Some (RVal (VBool true)).
Proof.
  unfold delivery. destruct (slot s); [discriminate|]. destruct (rsp s) as [[v|e]|]; try discriminate.
  intros H; inversion H; reflexivity.
Qed.

Lemma delivery_wait_ok s m i : GI s m -> blk s = None -> delivery s = Some i -> wait_ok false m i = true.
Proof.
  intros I B D. apply wait_ok_intro. intros g t eot wa L E. subst i.
  eapply (gi_true _ _ I B); eauto. apply delivery_true; assumption.
Qed.

Lemma forallb_resolved_mono (t t' : list sst) l :
  (forall j, resolved t j = true -> resolved t' j = true) ->
  forallb (resolved t) l = true -> forallb (resolved t') l = true.
Proof. intros M H. rewrite forallb_forall in *. auto. Qed.

Lemma GI_step s m e : GI s m -> exists m', wait_step false m (e, snd (step s e)) = Some m' /\ GI (fst (step s e)) m'.
Proof.
  intros I. unfold step. destruct (ended s) eqn:En; [exists m; split; [reflexivity|exact I]|].
  assert (SK : exists m', wait_step false m (e, snd (skip s)) = Some m' /\ GI (fst (skip s)) m').
  { exists m. split; [destruct e; reflexivity|exact I]. }
  pose proof I as I0. destruct I as [Hn Hc Hf Hg Hb Ht].
  destruct e as [ms| |sid ok|sid| | | | | ].
  - (* EMsg *)
    destruct (blk s) eqn:B; [exact SK|]. destruct (delivery s) as [i|] eqn:D; [|exact SK].
    cbn [fst snd]. unfold wait_step. cbn [is_skip]. rewrite (delivery_wait_ok s m i I0 B D).
    eexists; split; [reflexivity|].
    destruct ms as [g0|g0 tmo eot watch|].
    + (* add *) constructor; cbn.
      * rewrite app_length, Hn. cbn. lia.
      * intros j. rewrite resolved_app. apply Hc.
      * intros j. rewrite objdone_app. apply Hf.
      * intros j g [E|H].
        { inversion E; subst. right; left. rewrite lookup_put_same. apply in_or_app. right. rewrite Hn. left; reflexivity. }
        { destruct (Hg _ _ H) as [A|[A|[[w [A _]]|A]]]; try congruence.
          - left. rewrite resolved_app. exact A.
          - right; left. destruct (Nat.eq_dec g0 g) as [->|N].
            + rewrite lookup_put_same. apply in_or_app. left; exact A.
            + rewrite lookup_put_other by assumption. exact A.
          - right; right; right. exact A. }
      * discriminate.
      * intros _ g t eot wa E. discriminate.
    + (* wait *) cbn. destruct (lookup g0 (groups s)) as [|f0 fr] eqn:LK.
      * constructor; cbn; auto; try discriminate.
        { intros _ g t eot' wa E _. inversion E; subst. intros j H.
          destruct (Hg _ _ H) as [A|[A|[[w [A _]]|A]]]; try congruence.
          - left. rewrite Hc. exact A.
          - rewrite LK in A. contradiction.
          - right; right. exact A. }
      * constructor; cbn; auto; try discriminate.
        { intros j g H. destruct (Hg _ _ H) as [A|[A|[[w [A _]]|A]]]; try congruence; auto.
          destruct (Nat.eq_dec g0 g) as [->|N].
          - right; right; left. eexists; split; [reflexivity|]. cbn. split; auto. rewrite LK in A. exact A.
          - right; left. rewrite lookup_remove_other by assumption. exact A. }
        { intros w E. inversion E; subst; cbn. split; [eexists; reflexivity|]. split; [apply lookup_remove_same|discriminate]. }
    + (* other *) constructor; cbn; auto; try discriminate.
  - (* EEnd *)
    destruct (blk s) eqn:B; [exact SK|]. destruct (delivery s) as [i|] eqn:D; [|exact SK].
    cbn [fst snd]. unfold wait_step. cbn [is_skip]. rewrite (delivery_wait_ok s m i I0 B D).
    eexists; split; [reflexivity|]. constructor; cbn; auto; try discriminate.
  - (* EFinish *)
    destruct (sget (stat s) sid) as [[|?|?]|] eqn:G; try exact SK.
    cbn [fst snd]. eexists; split; [reflexivity|]. constructor; cbn; auto.
    + rewrite sset_length. exact Hn.
    + intros j. rewrite resolved_sset_fin by assumption. apply Hc.
    + intros j H. destruct (Nat.eqb_spec sid j) as [->|N]; [reflexivity|].
      rewrite objdone_sset_other in H by assumption. auto.
    + intros j g H. rewrite resolved_sset_fin by assumption. auto.
    + intros w E. destruct (Hb w E) as [A [B C]]. repeat split; auto.
      intros F. eapply forallb_resolved_mono; [|apply C; exact F]. intros j. rewrite resolved_sset_fin by assumption. auto.
    + intros B g t eot wa L R j H. destruct (Ht B g t eot wa L R j H) as [A|[[A A']|A]]; auto.
      right; left. split; auto. cbn. destruct (Nat.eqb sid j); auto.
  - (* EDone *)
    destruct (sget (stat s) sid) as [[|ok|?]|] eqn:G; try exact SK.
    cbn [fst snd]. eexists; split; [reflexivity|].
    assert (M : forall j, resolved (stat s) j = true -> resolved (sset (stat s) sid (SDone ok)) j = true).
    { intros j H. rewrite (resolved_sset_done _ _ _ _ _ G), H. apply orb_true_r. }
    constructor; cbn.
    + rewrite sset_length. exact Hn.
    + intros j. rewrite (resolved_sset_done _ _ _ _ _ G). rewrite Hc. reflexivity.
    + intros j H. destruct (Nat.eqb_spec sid j) as [->|N].
      * apply Hf. unfold objdone. rewrite G. reflexivity.
      * rewrite objdone_sset_other in H by assumption. auto.
    + intros j g H. destruct (Hg _ _ H) as [A|[A|[[w [A [A1 A2]]]|A]]]; auto.
      right; right; left. rewrite A. cbn. eexists; split; [reflexivity|].
      destruct (rerelease_same (sset (stat s) sid (SDone ok)) w) as [E1 [E2 _]]. rewrite E1, E2. auto.
    + intros w' E. destruct (blk s) as [w|] eqn:B; cbn in E; [|discriminate]. inversion E; subst w'.
      destruct (rerelease_same (sset (stat s) sid (SDone ok)) w) as [E1 [E2 [E3 [E4 E5]]]].
      rewrite E1, E2, E3, E4. destruct (Hb w eq_refl) as [A [A1 A2]]. repeat split; auto.
      intros F. eapply forallb_resolved_mono; [exact M|]. apply A2. apply E5. exact F.
    + intros B g t eot wa L R j H. destruct (blk s) eqn:B0; [discriminate|].
      destruct (Ht eq_refl g t eot wa L R j H) as [A|[A|A]]; auto.
      left. cbn. rewrite A. apply orb_true_r.
  - (* ETimeout *)
    destruct (blk s) as [w|] eqn:B; [|exact SK]. destruct (w_tmo w) eqn:TM; [|exact SK]. destruct (w_sp w) eqn:SP; [|exact SK].
    cbn [fst snd]. eexists; split; [reflexivity|].
    destruct (Hb w eq_refl) as [A [A1 A2]].
    destruct w as [g0 futs tmo eot sp wf wp]; cbn in *.
    constructor; cbn; auto.
    + intros j g H. destruct (Hg _ _ H) as [X|[X|[[w0 [X [X1 X2]]]|X]]]; auto.
      inversion X; subst w0. right; right; left. eexists; split; [reflexivity|]. destruct wp; cbn in *; auto.
    + intros w' E. inversion E; subst w'. destruct wp; cbn; repeat split; auto; discriminate.
    + discriminate.
  - (* EWakeS *)
    destruct (blk s) as [w|] eqn:B; [|exact SK]. destruct (w_sp w) as [[|]|] eqn:SP; try exact SK.
    cbn [fst snd]. eexists; split; [reflexivity|].
    destruct (Hb w eq_refl) as [A [A1 A2]].
    constructor; cbn; auto.
    + intros j g H. destruct (Hg _ _ H) as [X|[X|[[w0 [X [X1 X2]]]|X]]]; auto.
      inversion X; subst w0. right; right; left. eexists; split; [reflexivity|]. cbn. auto.
    + intros w' E. inversion E; subst w'. cbn. repeat split; auto.
      intros F. inversion F as [F1]. unfold unresolved in F1. destruct (forallb (resolved (stat s)) (w_futs w)); auto; discriminate.
    + discriminate.
  - (* EResume *)
    destruct (blk s) as [w|] eqn:B; [|exact SK]. destruct (Hb w eq_refl) as [[wa A] [A1 A2]].
    destruct (w_sp w) as [|[|]] eqn:SP; try exact SK.
    + (* woke with an unresolved future: the group is put back *)
      cbn [fst snd]. eexists; split; [reflexivity|]. constructor; cbn; auto; try discriminate.
      * intros j g H. destruct (Hg _ _ H) as [X|[X|[[w0 [X [X1 X2]]]|X]]]; auto.
        { right; left. destruct (Nat.eq_dec (w_g w) g) as [E|N].
          - subst g. rewrite A1 in X. contradiction.
          - rewrite lookup_put_other by assumption. exact X. }
        { inversion X; subst w0. subst g. right; left. rewrite lookup_put_same. exact X2. }
      * intros _ g t eot wa' L R. rewrite A in L. inversion L; subst. intros j H.
        destruct (w_eot w) eqn:EO; [discriminate|]. assert (R1 : forallb (objdone (stat s)) (w_futs w) = true) by congruence.
        destruct (Hg _ _ H) as [X|[X|[[w0 [X [X1 X2]]]|X]]]; auto.
        { left. rewrite Hc. exact X. }
        { rewrite A1 in X. contradiction. }
        { inversion X; subst w0. right; left. split; auto. apply Hf.
          rewrite forallb_forall in R1. apply R1. exact X2. }
    + (* every future resolved *)
      cbn [fst snd]. eexists; split; [reflexivity|]. specialize (A2 eq_refl). rewrite forallb_forall in A2.
      constructor; cbn; auto; try discriminate.
      * intros j g H. destruct (Hg _ _ H) as [X|[X|[[w0 [X [X1 X2]]]|X]]]; auto.
        inversion X; subst w0. left. apply A2. exact X2.
      * intros _ g t eot wa' L R. rewrite A in L. inversion L; subst. intros j H.
        destruct (Hg _ _ H) as [X|[X|[[w0 [X [X1 X2]]]|X]]]; auto.
        { left. rewrite Hc. exact X. }
        { rewrite A1 in X. contradiction. }
        { inversion X; subst w0. left. rewrite Hc. apply A2. exact X2. }
  - (* EWakeW *)
    destruct (blk s) as [w|] eqn:B; [|exact SK]. destruct (w_wp w) as [|[|]| |] eqn:WP; try exact SK.
    cbn [fst snd]. eexists; split; [reflexivity|].
    destruct (Hb w eq_refl) as [A [A1 A2]].
    constructor; cbn; auto.
    + intros j g H. destruct (Hg _ _ H) as [X|[X|[[w0 [X [X1 X2]]]|X]]]; auto.
      inversion X; subst w0. right; right; left. eexists; split; [reflexivity|]. cbn. auto.
    + intros w' E. inversion E; subst w'. cbn. repeat split; auto.
    + discriminate.
  - (* ECancelCb *)
    destruct (blk s) as [w|] eqn:B; [|exact SK]. destruct (w_wp w) as [|?| |] eqn:WP; try exact SK.
    destruct (w_sp w) eqn:SP; try exact SK.
    destruct (Hb w eq_refl) as [[wa A] [A1 A2]].
    cbn [fst snd]. unfold wait_step. cbn [is_skip]. rewrite A.
    eexists; split; [reflexivity|]. constructor; cbn; auto; try discriminate.
    intros j g H. destruct (Hg _ _ H) as [X|[X|[[w0 [X [X1 X2]]]|X]]]; auto.
    + inversion X; subst w0. subst g. right; right; right. rewrite Nat.eqb_refl. reflexivity.
    + right; right; right. rewrite X. apply orb_true_r.
Qed.

Lemma GI_run evs : forall s m, GI s m -> exists m', wait_run false m (snd (run_tr s evs)) = Some m' /\ GI (fst (run_tr s evs)) m'.
Proof.
  induction evs as [|e r IH]; intros s m I.
  - exists m. split; [reflexivity|exact I].
  - rewrite run_tr_cons. cbn [fst snd wait_run].
    destruct (GI_step s m e I) as [m1 [E I1]]. rewrite E. apply IH. exact I1.
Qed.

Theorem wait_true_sound : forall evs : list event, mon_wait false (snd (run_tr init evs)) = true.
Proof.
  intros evs. unfold mon_wait. destruct (GI_run evs init g0 GI_init) as [m' [E _]]. rewrite E. reflexivity.
Qed.

(* ================================================================ outside the finding classes the strict reading holds *)
Definition no_cancel (tr : list (event * list obs)) : bool := negb (finding_F2 tr).
Definition eot_only (tr : list (event * list obs)) : bool :=
  forallb (fun eo => match fst eo with EMsg (MWait _ _ false _) => false | _ => true end) tr.
Definition last_eot (m : gst) : bool :=
  match g_last m with Some (MWait _ _ false _) => false | _ => true end.

Lemma strict_step m eo m' :
  g_lost m = [] -> last_eot m = true ->
  (match eo with (ECancelCb, []) => false | _ => true end) = true ->
  (match fst eo with EMsg (MWait _ _ false _) => false | _ => true end) = true ->
  wait_step false m eo = Some m' ->
  wait_step true m eo = Some m' /\ g_lost m' = [] /\ last_eot m' = true.
Proof.
  intros L E NC EO. destruct eo as [e o]. unfold wait_step.
  assert (W : forall i, wait_ok true m i = wait_ok false m i).
  { intros i. unfold wait_ok. destruct i as [[|[|]]|]; auto. unfold last_eot in E.
    destruct (g_last m) as [[g|g t [|] wa|]|]; auto; try discriminate. rewrite L. cbn.
    f_equal. }
  destruct (is_skip o) eqn:SKP.
  - intros H; inversion H; subst. auto.
  - destruct e as [ms| |sid ok|sid| | | | | ]; destruct o as [|[i|] [|? ?]]; try discriminate; cbn in *.
    + rewrite W. destruct (wait_ok false m i); [|discriminate]. intros H; inversion H; subst.
      destruct ms as [g|g t [|] wa|]; cbn; auto; discriminate.
    + rewrite W. destruct (wait_ok false m i); [|discriminate]. intros H; inversion H; subst. cbn. auto.
    + intros H; inversion H; subst; cbn; auto.
    + intros H; inversion H; subst; cbn; auto.
    + intros H; inversion H; subst; cbn; auto.
    + intros H; inversion H; subst; cbn; auto.
    + intros H; inversion H; subst; cbn; auto.
    + intros H; inversion H; subst; cbn; auto.
Qed.

Lemma strict_run tr : forall m m',
  g_lost m = [] -> last_eot m = true -> no_cancel tr = true -> eot_only tr = true ->
  wait_run false m tr = Some m' -> wait_run true m tr = Some m'.
Proof.
  induction tr as [|eo r IH]; intros m m' L E NC EO H; cbn in *; auto.
  unfold no_cancel, finding_F2 in NC. cbn in NC, EO. rewrite negb_orb in NC.
  apply andb_true_iff in NC. destruct NC as [NC1 NC2]. apply andb_true_iff in EO. destruct EO as [EO1 EO2].
  destruct (wait_step false m eo) as [m1|] eqn:S; [|discriminate].
  destruct (strict_step m eo m1 L E) as [S1 [L1 E1]]; auto.
  - destruct eo as [[] [|]]; auto; discriminate.
  - rewrite S1. eapply IH; eauto.
Qed.

Theorem wait_true_strict : forall evs : list event,
  no_cancel (snd (run_tr init evs)) = true -> eot_only (snd (run_tr init evs)) = true ->
  mon_wait true (snd (run_tr init evs)) = true.
Proof.
  intros evs NC EO. pose proof (wait_true_sound evs) as H. unfold mon_wait in *.
  destruct (wait_run false g0 (snd (run_tr init evs))) as [m'|] eqn:R; [|discriminate].
  rewrite (strict_run _ g0 m' eq_refl eq_refl NC EO R). reflexivity.
Qed.

(* ================================================================ the result of a wait, step by step *)
(* the status task wakes: whether a future of the group is still unresolved decides between the two endings *)
Lemma wake_decides s w b :
  ended s = false -> blk s = Some w -> w_sp w = SWait b ->
  step s EWakeS = if b then (with_blk s (Some (set_sp w (SFinished (unresolved (stat s) (w_futs w))))), [])
                  else skip s.
Proof. intros En B SP. unfold step. rewrite En, B, SP. destruct b; reflexivity. Qed.

(* `_wait` resumes: True when every future was resolved; otherwise the group is put back and the answer is the
   timeout error (error_on_timeout) or whether every status object is done *)
Lemma resume_result s w timedout :
  ended s = false -> blk s = Some w -> w_sp w = SFinished timedout ->
  let s' := fst (step s EResume) in
  blk s' = None /\ slot s' = slot s /\ stat s' = stat s /\
  (timedout = false -> rsp s' = Some (RVal (VBool true)) /\ groups s' = groups s) /\
  (timedout = true -> groups s' = put (w_g w) (w_futs w) (groups s) /\
     rsp s' = Some (if w_eot w then RExn XTimeout else RVal (VBool (forallb (objdone (stat s)) (w_futs w))))).
Proof.
  intros En B SP. unfold step. rewrite En, B, SP. destruct timedout; cbn; repeat split; auto; discriminate.
Qed.

(* a wait on a group without statuses (never used, or already consumed) answers True at once *)
Lemma wait_empty_group s g tmo eot watch :
  lookup g (groups s) = [] ->
  process s (MWait g tmo eot watch) = mkst (groups s) (stat s) None (Some (RVal (VBool true))) None false.
Proof. intros H. cbn. rewrite H. reflexivity. Qed.

(* what the plan is given: the slot first, and it is emptied *)
Lemma slot_first s e m :
  ended s = false -> blk s = None -> slot s = Some e ->
  snd (step s (EMsg m)) = [OIn (IThrow e)] /\ slot (fst (step s (EMsg m))) = None.
Proof.
  intros En B S. unfold step, delivery. rewrite En, B, S. cbn. split; auto. apply process_slot.
Qed.

(* a member fails while another is unresolved, error_on_timeout: the response is the timeout error, the slot holds the
   failure, the group is put back whole; the plan is thrown the FAILURE at the yield of the wait *)
Lemma fail_while_pending s w sid :
  ended s = false -> blk s = Some w -> w_sp w = SWait false -> w_eot w = true ->
  In sid (w_futs w) -> sget (stat s) sid = Some (SFin false) ->
  (exists other, In other (w_futs w) /\ other <> sid /\ resolved (stat s) other = false) ->
  let s1 := fst (step s (EDone sid)) in
  let s3 := run s1 [EWakeS; EResume] in
  slot s3 = Some (XFailed sid) /\ rsp s3 = Some (RExn XTimeout) /\ blk s3 = None /\
  lookup (w_g w) (groups s3) = w_futs w /\
  forall m, snd (step s3 (EMsg m)) = [OIn (IThrow (XFailed sid))].
Proof.
  intros En B SP EO IN G [other [IO [NE NR]]].
  assert (REL : released (sset (stat s) sid (SDone false)) (w_futs w) = true).
  { unfold released. apply orb_true_iff. left. apply existsb_exists. exists sid. split; auto.
    unfold failed. rewrite (sget_sset_same _ _ _ _ G). reflexivity. }
  assert (UNR : unresolved (sset (stat s) sid (SDone false)) (w_futs w) = true).
  { unfold unresolved. apply negb_true_iff. apply not_true_is_false. intros F.
    rewrite forallb_forall in F. specialize (F other IO).
    rewrite (resolved_sset_done _ _ _ _ _ G) in F. rewrite NR in F.
    destruct (Nat.eqb_spec sid other); [congruence|discriminate]. }
  assert (RR : exists wp', rerelease (sset (stat s) sid (SDone false)) w
                           = mkwt (w_g w) (w_futs w) (w_tmo w) true (SWait true) (w_wf w) wp').
  { unfold rerelease. rewrite SP. destruct w as [g futs tmo eot sp wf wp]; cbn in *. subst. rewrite REL.
    destruct wp as [|[|]| |]; cbn; eexists; reflexivity. }
  destruct RR as [wp' RR].
  assert (E1 : step s (EDone sid) =
               (mkst (groups s) (sset (stat s) sid (SDone false)) (Some (XFailed sid)) (rsp s)
                     (Some (mkwt (w_g w) (w_futs w) (w_tmo w) true (SWait true) (w_wf w) wp')) false, [])).
  { unfold step. rewrite En, G, B. cbn [option_map]. rewrite RR. reflexivity. }
  intros s1 s3. subst s3 s1. rewrite E1. cbn [fst]. unfold run. cbn. rewrite UNR. cbn.
  repeat split; auto.
  unfold put. cbn. rewrite Nat.eqb_refl. reflexivity.
Qed.

(* ================================================================ (c) what a step does not touch *)
Lemma frame_groups s ev g' :
  (forall w, blk s = Some w -> w_g w <> g') ->
  ev <> EMsg (MAdd g') -> (forall t e wa, ev <> EMsg (MWait g' t e wa)) ->
  lookup g' (groups (fst (step s ev))) = lookup g' (groups s).
Proof.
  intros HB NA NW. unfold step. destruct (ended s); [reflexivity|].
  destruct ev as [ms| |sid ok|sid| | | | | ]; cbn.
  - destruct (blk s); [reflexivity|]. destruct (delivery s); [|reflexivity]. cbn.
    destruct ms as [g|g t e wa|]; cbn; auto.
    + apply lookup_put_other. intros ->. apply NA; reflexivity.
    + destruct (lookup g (groups s)) eqn:L; cbn; auto. apply lookup_remove_other. intros ->. eapply NW; reflexivity.
  - destruct (blk s); [reflexivity|]. destruct (delivery s); reflexivity.
  - destruct (sget (stat s) sid) as [[| |]|]; reflexivity.
  - destruct (sget (stat s) sid) as [[| |]|]; reflexivity.
  - destruct (blk s) as [w|]; [|reflexivity]. destruct (w_tmo w); [|reflexivity]. destruct (w_sp w); reflexivity.
  - destruct (blk s) as [w|]; [|reflexivity]. destruct (w_sp w) as [[|]|]; reflexivity.
  - destruct (blk s) as [w|] eqn:B; [|reflexivity]. destruct (w_sp w) as [|[|]]; try reflexivity. cbn.
    apply lookup_put_other. apply HB. reflexivity.
  - destruct (blk s) as [w|]; [|reflexivity]. destruct (w_wp w) as [|[|]| |]; reflexivity.
  - destruct (blk s) as [w|]; [|reflexivity]. destruct (w_wp w) as [|?| |]; try reflexivity. destruct (w_sp w); reflexivity.
Qed.

Lemma frame_status s ev sid x :
  sget (stat s) sid = Some x -> (forall ok, ev <> EFinish sid ok) -> ev <> EDone sid ->
  sget (stat (fst (step s ev))) sid = Some x.
Proof.
  intros G NF ND. unfold step. destruct (ended s); [exact G|].
  destruct ev as [ms| |j ok|j| | | | | ]; cbn.
  - destruct (blk s); [exact G|]. destruct (delivery s); [|exact G]. cbn.
    destruct ms as [g|g t e wa|]; cbn; auto.
    + destruct (sget_app_pend (stat s) sid) as [E|[[E1 E2]|[E1 E2]]]; congruence.
    + destruct (lookup g (groups s)); exact G.
  - destruct (blk s); [exact G|]. destruct (delivery s); exact G.
  - destruct (sget (stat s) j) as [[| |]|] eqn:GJ; try exact G. cbn.
    rewrite sget_sset_other; [exact G|]. intros ->. eapply NF; reflexivity.
  - destruct (sget (stat s) j) as [[| |]|] eqn:GJ; try exact G. cbn.
    rewrite sget_sset_other; [exact G|]. intros ->. apply ND; reflexivity.
  - destruct (blk s) as [w|]; [|exact G]. destruct (w_tmo w); [|exact G]. destruct (w_sp w); exact G.
  - destruct (blk s) as [w|]; [|exact G]. destruct (w_sp w) as [[|]|]; exact G.
  - destruct (blk s) as [w|]; [|exact G]. destruct (w_sp w) as [|[|]]; exact G.
  - destruct (blk s) as [w|]; [|exact G]. destruct (w_wp w) as [|[|]| |]; exact G.
  - destruct (blk s) as [w|]; [|exact G]. destruct (w_wp w) as [|?| |]; try exact G. destruct (w_sp w); exact G.
Qed.

(* the slot changes only by a delivery (emptied) or by a failure being recorded *)
Lemma frame_slot s ev e :
  slot s = Some e ->
  slot (fst (step s ev)) = Some e
  \/ (snd (step s ev) = [OIn (IThrow e)] /\ slot (fst (step s ev)) = None)
  \/ (exists sid, ev = EDone sid /\ sget (stat s) sid = Some (SFin false) /\ slot (fst (step s ev)) = Some (XFailed sid)).
Proof.
  intros S. unfold step. destruct (ended s); [left; exact S|].
  destruct ev as [ms| |j ok|j| | | | | ]; cbn.
  - destruct (blk s); [left; exact S|]. unfold delivery. rewrite S. cbn. right; left. split; auto. apply process_slot.
  - destruct (blk s); [left; exact S|]. unfold delivery. rewrite S. cbn. right; left. auto.
  - destruct (sget (stat s) j) as [[| |]|]; left; exact S.
  - destruct (sget (stat s) j) as [[|[|]|]|] eqn:G; cbn; auto. right; right. exists j. auto.
  - destruct (blk s) as [w|]; [|left; exact S]. destruct (w_tmo w); [|left; exact S]. destruct (w_sp w); left; exact S.
  - destruct (blk s) as [w|]; [|left; exact S]. destruct (w_sp w) as [[|]|]; left; exact S.
  - destruct (blk s) as [w|]; [|left; exact S]. destruct (w_sp w) as [|[|]]; left; exact S.
  - destruct (blk s) as [w|]; [|left; exact S]. destruct (w_wp w) as [|[|]| |]; left; exact S.
  - destruct (blk s) as [w|]; [|left; exact S]. destruct (w_wp w) as [|?| |]; try (left; exact S). destruct (w_sp w); left; exact S.
Qed.
