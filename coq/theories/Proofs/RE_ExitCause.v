(* C02, from the accepted request to the decision.  A stop / abort / halt request accepted while
   `_run` is in its loop cancels the task in state stopping / aborting / halting; the next task step
   throws RequestStop / RequestAbort / PlanHalt into the plan stack.  If every frame on the stack lets
   that exception propagate (decidable on recorded tapes; a plan is free to swallow or convert it, and
   then the class of what finally escapes decides: Proofs/RE_ExitE2E.v) and no failed status is
   pending, the interpreter reaches CExit with exactly that exception: the decision of the call is the
   request.  With Proofs/RE_ExitE2E.v: stop -> success, abort / halt -> abort, and
   RunEngineInterrupted for the caller. *)
From Coq Require Import List String ZArith Bool Arith Lia.
From BV Require Import Engine.RE Proofs.RE_Inv Proofs.RE_Exit Proofs.RE_ExitFrame Proofs.RE_ExitE2E.
Import ListNotations.
Local Open Scope nat_scope.

(* the exception `_run` substitutes for the CancelledError in each terminal state *)
Definition cancel_exn (x : rstate) : option exn :=
  match x with Stopping => Some ERequestStop | Aborting => Some ERequestAbort | Halting => Some EPlanHalt | _ => None end.

Section Cause.
Variable P : Type.
Variable presume : P -> input -> outcome P.
Variable plan_of : nat -> P.
Variable D : Type.
Variable dev : D -> nat -> devmeth -> D * devres.

Local Notation st := (RE.st P D).
Local Notation state := (RE.state P D).
Local Notation pc := (RE.pc P D).
Local Notation must_cancel := (RE.must_cancel P D).
Local Notation permit := (RE.permit P D).
Local Notation plans := (RE.plans P D).
Local Notation resps := (RE.resps P D).
Local Notation stashed := (RE.stashed P D).
Local Notation exc_slot := (RE.exc_slot P D).
Local Notation dstep := (RE_Inv.dstep P presume plan_of D dev).
Local Notation dreach := (RE_Inv.dreach P presume plan_of D dev).
Local Notation visited := (RE_Inv.visited P presume plan_of D dev).
Local Notation tentry := (RE_Inv.tentry P presume D dev).
Local Notation frame_resume := (RE.frame_resume P presume).
Local Notation IT := (RE_Inv.Inv P D True).

(* the frame lets a thrown e escape unchanged *)
Definition propagates (e : exn) (f : frame P) : Prop := fst (frame_resume f (Throw e)) = Raised e.

Lemma dreach_trans a b c : dreach a b -> dreach b c -> dreach a c.
Proof. induction 1; intros H2; [exact H2|]. eapply dreach_step; [eassumption | apply IHdreach, H2]. Qed.

Lemma dreach_one s c os cfg : dstep s c os = inl cfg -> dreach (s, c, os) cfg.
Proof. intros H. eapply dreach_step; [exact H | apply dreach_refl]. Qed.

(* ------------------------------------------------------------------ single iterations, computed *)
Lemma dstep_body_stashed (s : st) os e :
  List.length (resps s) = List.length (plans s) -> stashed s = Some e -> dstep s CBody os = inl (s, CAfterSleep, os).
Proof. intros Hl Hs. cbn [RE_Inv.dstep]. rewrite Hl, Nat.eqb_refl, Hs. reflexivity. Qed.

Lemma dstep_top_plain (s : st) os :
  state s <> Pausing -> state s <> Suspending -> permit s = true -> dstep s CTop os = inl (s, CBody, os ++ []).
Proof.
  intros H1 H2 Hp. cbn [RE_Inv.dstep]. apply RE_Inv.rstate_eqb_neq in H1, H2. rewrite H1, H2, Hp. reflexivity.
Qed.

(* throwing e into the top frame when it propagates *)
Lemma dstep_after_throw (s : st) os e r rest top below po :
  resps s = r :: rest -> plans s = top :: below -> exc_slot s = None -> stashed s = Some e ->
  frame_resume top (Throw e) = (Raised e, po) -> is_Exception e = true ->
  dstep s CAfterSleep os =
    match below with
    | [] => inl (RE.pop_plan P D (RE.set_resps P D s rest), CExit (XExn e), os ++ po)
    | _ => inl (RE.set_stashed P D (RE.pop_plan P D (RE.set_resps P D s rest)) (Some e), CContinue false (RVal VNone), os ++ po)
    end.
Proof.
  intros Hr Hp He Hs Hf Hx. cbn [RE_Inv.dstep]. rewrite Hr, Hp.
  assert (E1 : exc_slot (RE.set_resps P D s rest) = None) by exact He. rewrite E1.
  assert (E2 : stashed (RE.set_resps P D s rest) = Some e) by exact Hs. rewrite E2, Hf, Hx.
  assert (E3 : plans (RE.pop_plan P D (RE.set_resps P D s rest)) = below) by (cbn; rewrite Hp; reflexivity).
  rewrite E3. destruct below; reflexivity.
Qed.

(* ------------------------------------------------------------------ the exception unwinds the whole stack *)
Lemma unwind e : is_Exception e = true -> forall n (s : st) os,
  List.length (plans s) = S n -> List.length (resps s) = S n ->
  stashed s = Some e -> exc_slot s = None -> permit s = true ->
  state s <> Pausing -> state s <> Suspending ->
  Forall (propagates e) (plans s) ->
  exists s1 os1, dreach (s, CBody, os) (s1, CExit (XExn e), os1) /\ state s1 = state s.
Proof.
  intros Hx. induction n as [|n IH]; intros s os Hlp Hlr Hs He Hpm Hn1 Hn2 Hall.
  - destruct (plans s) as [|top [|? ?]] eqn:Ep; try discriminate Hlp.
    destruct (resps s) as [|r [|? ?]] eqn:Er; try discriminate Hlr.
    inversion Hall as [|? ? Htop _]; subst. unfold propagates in Htop.
    destruct (frame_resume top (Throw e)) as [o po] eqn:Ef. cbn [fst] in Htop. subst o.
    eexists; eexists. split.
    + eapply dreach_step; [apply (dstep_body_stashed s os e); [rewrite Er, Ep; reflexivity | exact Hs]|].
      eapply dreach_one. rewrite (dstep_after_throw s os e r [] top [] po Er Ep He Hs Ef Hx). reflexivity.
    + reflexivity.
  - destruct (plans s) as [|top below] eqn:Ep; [discriminate Hlp|].
    destruct (resps s) as [|r rest] eqn:Er; [discriminate Hlr|].
    cbn [List.length] in Hlp, Hlr. inversion Hlp as [Hlp']. inversion Hlr as [Hlr'].
    inversion Hall as [|? ? Htop Hrest]; subst. unfold propagates in Htop.
    destruct (frame_resume top (Throw e)) as [o po] eqn:Ef. cbn [fst] in Htop. subst o.
    destruct below as [|f2 below']; [discriminate Hlp'|].
    set (s' := RE.set_stashed P D (RE.pop_plan P D (RE.set_resps P D s rest)) (Some e)).
    assert (Hp' : plans s' = f2 :: below') by (unfold s'; cbn; rewrite Ep; reflexivity).
    assert (Hr' : resps s' = rest) by reflexivity.
    assert (Q1 : List.length (plans s') = S n) by (rewrite Hp'; exact Hlp').
    assert (Q2 : List.length (resps s') = S n) by (rewrite Hr'; exact Hlr').
    assert (Q3 : stashed s' = Some e) by reflexivity.
    assert (Q4 : exc_slot s' = None) by exact He.
    assert (Q5 : permit s' = true) by exact Hpm.
    assert (Q6 : state s' <> Pausing) by exact Hn1.
    assert (Q7 : state s' <> Suspending) by exact Hn2.
    assert (Q8 : Forall (propagates e) (plans s')) by (rewrite Hp'; exact Hrest).
    destruct (IH s' ((os ++ po) ++ []) Q1 Q2 Q3 Q4 Q5 Q6 Q7 Q8) as (s1 & os1 & Hd & Hst).
    exists s1, os1. split; [|rewrite Hst; reflexivity].
    eapply dreach_step; [apply (dstep_body_stashed s os e); [rewrite Er, Ep; cbn [List.length] in *; lia | exact Hs]|].
    eapply dreach_step; [rewrite (dstep_after_throw s os e r rest top (f2 :: below') po Er Ep He Hs Ef Hx); reflexivity|].
    fold s'. eapply dreach_step; [reflexivity|]. cbn beta iota.
    eapply dreach_step; [apply (dstep_top_plain s' (os ++ po)); assumption|]. exact Hd.
Qed.

(* PlanHalt is not an Exception: it leaves the loop at the first frame *)
Lemma halt_exits (s : st) os r rest top below po :
  resps s = r :: rest -> plans s = top :: below -> exc_slot s = None -> stashed s = Some EPlanHalt ->
  frame_resume top (Throw EPlanHalt) = (Raised EPlanHalt, po) ->
  exists s1, dstep s CAfterSleep os = inl (s1, CExit (XExn EPlanHalt), os ++ po) /\ state s1 = state s.
Proof.
  intros Hr Hp He Hs Hf. cbn [RE_Inv.dstep]. rewrite Hr, Hp.
  assert (E1 : exc_slot (RE.set_resps P D s rest) = None) by exact He. rewrite E1.
  assert (E2 : stashed (RE.set_resps P D s rest) = Some EPlanHalt) by exact Hs. rewrite E2, Hf.
  cbn [is_Exception]. eexists. split; reflexivity.
Qed.

(* ------------------------------------------------------------------ from the cancelled await to the decision *)
Definition in_loop (p : pcs) : bool := match p with PcSleep0 | PcCmd _ => true | _ => false end.

Theorem request_decides (s : st) e :
  IT s -> in_loop (pc s) = true -> must_cancel s = true -> cancel_exn (state s) = Some e ->
  stashed s = None -> exc_slot s = None -> Forall (propagates e) (plans s) ->
  exists s1 os1, visited s (s1, CExit (XExn e), os1) /\ state s1 = state s.
Proof.
  intros HI Hpc Hmc Hce Hst Hex Hall.
  pose proof (RE_Inv.inv_stacks_aligned P D True s HI) as Hal. unfold RE_Inv.stack_a in Hal.
  assert (Hperm : permit s = true).
  { destruct HI as (_ & _ & _ & _ & H5 & _). destruct (pc s); try discriminate Hpc; exact H5. }
  set (s0 := RE.set_must_cancel P D s false).
  (* after the cancellation has been turned into the control exception the stacks are aligned *)
  assert (Hentry : exists popped, tentry s = inl (s0, CCancelled popped, []) /\
                   let sa := if popped then RE.set_resps P D s0 (RVal VNone :: resps s0) else s0 in
                   List.length (resps sa) = List.length (plans sa) /\ 0 < List.length (plans sa)).
  { unfold RE_Inv.tentry. cbv zeta. destruct (pc s) eqn:Ep; try discriminate Hpc; rewrite Hmc.
    - exists false. split; [reflexivity|]. exact Hal.
    - exists true. split; [reflexivity|]. cbn. split; [exact Hal | lia]. }
  destruct Hentry as (popped & Het & Hlen & Hpos). cbv zeta in Hlen, Hpos.
  set (sa := if popped then RE.set_resps P D s0 (RVal VNone :: resps s0) else s0) in *.
  assert (Hsa : state sa = state s /\ plans sa = plans s /\ stashed sa = None /\ exc_slot sa = None /\ permit sa = true).
  { unfold sa, s0. destruct popped; cbn; auto. }
  destruct Hsa as (A1 & A2 & A3 & A4 & A5).
  set (sb := RE.set_stashed P D sa (Some e)).
  assert (Hc : dreach (s0, CCancelled popped, []) (sb, CBody, [] ++ [])).
  { assert (Hd1 : dstep s0 (CCancelled popped) [] = inl (RE.set_stashed P D s0 (Some e), CContinue popped (RVal VNone), [])).
    { cbn [RE_Inv.dstep]. assert (E0 : state s0 = state s) by reflexivity. rewrite E0.
      assert (Es : stashed s0 = None) by exact Hst. rewrite Es.
      destruct (state s); try discriminate Hce; inversion Hce; reflexivity. }
    eapply dreach_step; [exact Hd1|]. eapply dreach_step; [reflexivity|]. cbn beta iota.
    assert (Eb : (if popped then RE.set_resps P D (RE.set_stashed P D s0 (Some e)) (RVal VNone :: resps (RE.set_stashed P D s0 (Some e))) else RE.set_stashed P D s0 (Some e)) = sb).
    { unfold sb, sa. destruct popped; reflexivity. }
    rewrite Eb. apply dreach_one. apply dstep_top_plain.
    - unfold sb; cbn [RE.state RE.set_stashed RE.upd]. rewrite A1. destruct (state s); try discriminate Hce; discriminate.
    - unfold sb; cbn [RE.state RE.set_stashed RE.upd]. rewrite A1. destruct (state s); try discriminate Hce; discriminate.
    - exact A5. }
  assert (B1 : plans sb = plans sa) by reflexivity. assert (B2 : resps sb = resps sa) by reflexivity.
  assert (B3 : state sb = state s) by (unfold sb; cbn; exact A1).
  destruct (is_Exception e) eqn:Hx.
  - destruct (List.length (plans sa)) as [|n] eqn:En; [lia|].
    destruct (unwind e Hx n sb ([] ++ [])) as (s1 & os1 & Hd & Hs1).
    + rewrite B1. exact En.
    + rewrite B2, Hlen. reflexivity.
    + reflexivity.
    + exact A4.
    + exact A5.
    + rewrite B3. destruct (state s); try discriminate Hce; discriminate.
    + rewrite B3. destruct (state s); try discriminate Hce; discriminate.
    + rewrite B1, A2. exact Hall.
    + exists s1, os1. split; [|congruence]. exists (s0, CCancelled popped, []). split; [exact Het|].
      eapply dreach_trans; eassumption.
  - (* PlanHalt *)
    assert (Ee : e = EPlanHalt) by (destruct (state s); try discriminate Hce; inversion Hce; subst; try discriminate Hx; reflexivity).
    subst e. destruct (plans sa) as [|top below] eqn:Ep; [cbn in Hpos; lia|].
    destruct (resps sa) as [|r rest] eqn:Er; [cbn in Hlen; discriminate Hlen|].
    assert (Htop : propagates EPlanHalt top) by (rewrite <- A2 in Hall; inversion Hall; assumption).
    unfold propagates in Htop. destruct (frame_resume top (Throw EPlanHalt)) as [o po] eqn:Ef. cbn [fst] in Htop. subst o.
    destruct (halt_exits sb ([] ++ []) r rest top below po B2 B1 A4 eq_refl Ef) as (s1 & Hd & Hs1).
    exists s1, (([] ++ []) ++ po). split; [|congruence]. exists (s0, CCancelled popped, []). split; [exact Het|].
    eapply dreach_trans; [exact Hc|].
    eapply dreach_step; [apply (dstep_body_stashed sb ([] ++ []) EPlanHalt); [rewrite B2, B1; exact Hlen | reflexivity]|].
    apply dreach_one. exact Hd.
Qed.

(* ------------------------------------------------------------------ the request that puts the engine there *)
Definition req_state (e : event) : option rstate :=
  match e with EvReqStop => Some Stopping | EvReqAbort _ => Some Aborting | EvReqHalt => Some Halting | _ => None end.

Theorem request_lands (s : st) e x s' o :
  req_state e = Some x -> state s = Running -> in_loop (pc s) = true ->
  RE.step P presume plan_of D dev s e = (s', o) ->
  state s' = x /\ must_cancel s' = true /\ pc s' = pc s /\ plans s' = plans s /\ resps s' = resps s /\
  stashed s' = stashed s /\ exc_slot s' = exc_slot s /\ RE.interrupted P D s' = true.
Proof.
  intros Hr Hs Hpc H.
  destruct e; try discriminate Hr; inversion Hr; subst x; cbn [RE.step] in H; rewrite Hs in H;
    change (rstate_eqb Running Idle) with false in H; cbv iota in H;
    unfold RE.set_state, RE.req_result, RE.cancel_task in H;
    cbn [RE.state RE.set_exit RE.interrupt RE.set_ghost RE.set_interrupted RE.upd] in H; rewrite Hs in H;
    [change (allowed Running Aborting) with true in H | change (allowed Running Stopping) with true in H
     | change (allowed Running Halting) with true in H];
    change (rstate_eqb Running Paused) with false in H; cbv iota in H;
    cbn [RE.pc RE.set_state_raw RE.set_exit RE.interrupt RE.set_ghost RE.set_interrupted RE.upd] in H;
    destruct (pc s) eqn:Ep; try discriminate Hpc;
    match type of H with context [RE.mreq P D ?z] => destruct (RE.mreq P D z) end;
    inversion H; subst; cbn; rewrite ?Ep; repeat split; reflexivity.
Qed.

End Cause.
